/-
  Proofs/Torn.lean — byte-level facts about partially applied (torn) writes of the descriptor
  table and the header (C09): a byte mix of two encodings of non-negative int64 values is again
  non-negative, so a half-written descriptor whose old and new contents both have non-negative
  offset and size is still accepted by the loader.
-/
import SifVerif.Proofs.Crash
namespace Sif

theorem leVal_append (a b : Bytes) : leVal (a ++ b) = leVal a + 256 ^ a.length * leVal b := by
  induction a with
  | nil => simp [leVal]
  | cons x xs ih =>
    simp only [List.cons_append, leVal, ih, List.length_cons, Nat.pow_succ]
    rw [Nat.mul_add, Nat.mul_comm (256 ^ xs.length) 256, Nat.mul_assoc]
    omega

/-- the value of a byte mix: low part from `A`, high part from `B` -/
theorem leVal_mix (A B : Bytes) (r : Nat) (hr : r ≤ A.length) :
    leVal (A.take r ++ B.drop r) = leVal (A.take r) + 256 ^ r * leVal (B.drop r) := by
  rw [leVal_append]
  simp [List.length_take, Nat.min_eq_left hr]

/-- **a mix of two non-negative int64 encodings decodes to a non-negative value** -/
theorem decS8_mix_nonneg (a b : Int) (ha : 0 ≤ a ∧ a ≤ maxI64) (hb : 0 ≤ b ∧ b ≤ maxI64) (r : Nat) :
    0 ≤ decS 8 ((encS 8 a).take r ++ (encS 8 b).drop r) := by
  unfold maxI64 at ha hb
  by_cases hr : 8 ≤ r
  · -- everything from `a`
    have h1 : (encS 8 a).take r = encS 8 a := List.take_of_length_le (by simp; omega)
    have h2 : (encS 8 b).drop r = [] := List.drop_of_length_le (by simp; omega)
    rw [h1, h2, List.append_nil, decS8_encS8 a (by unfold I64; omega)]
    exact ha.1
  · have hr8 : r < 8 := by omega
    have hlen : r ≤ (encS 8 a).length := by simp; omega
    unfold decS
    rw [leVal_mix _ _ r hlen]
    -- the high part is bounded by the value of `b`
    have hB : leVal (encS 8 b) = b.toNat := by
      unfold encS
      rw [leVal_leBytes]
      have : (b % ((256 ^ 8 : Nat) : Int)).toNat = b.toNat := by
        have : (256 ^ 8 : Nat) = 18446744073709551616 := by decide
        rw [this]; omega
      rw [this]
      exact Nat.mod_eq_of_lt (by
        have : (256 ^ 8 : Nat) = 18446744073709551616 := by decide
        rw [this]; omega)
    have hsplit : leVal (encS 8 b) = leVal ((encS 8 b).take r) + 256 ^ r * leVal ((encS 8 b).drop r) := by
      have := leVal_append ((encS 8 b).take r) ((encS 8 b).drop r)
      rw [List.take_append_drop] at this
      rw [this]
      simp only [List.length_take, encS_length, Nat.min_eq_left (Nat.le_of_lt hr8)]
    have hlo : leVal ((encS 8 a).take r) < 256 ^ r := by
      have := leVal_lt ((encS 8 a).take r)
      simpa only [List.length_take, encS_length, Nat.min_eq_left (Nat.le_of_lt hr8)] using this
    generalize leVal ((encS 8 a).take r) = x at *
    generalize leVal ((encS 8 b).drop r) = q at *
    generalize leVal ((encS 8 b).take r) = y at *
    rw [hB] at hsplit
    have hbn : b.toNat < 9223372036854775808 := by omega
    have h256 : (256 ^ 8 : Nat) = 18446744073709551616 := by decide
    rw [h256]
    have hr' : r = 0 ∨ r = 1 ∨ r = 2 ∨ r = 3 ∨ r = 4 ∨ r = 5 ∨ r = 6 ∨ r = 7 := by omega
    rcases hr' with rfl | rfl | rfl | rfl | rfl | rfl | rfl | rfl <;>
      simp only [Nat.pow_zero, Nat.pow_one, Nat.reducePow] at hlo hsplit ⊢ <;>
      (split <;> omega)

/-- a slice of a byte mix is the mix of the slices -/
theorem slice_mix (A B : Bytes) (hl : A.length = B.length) (j o l : Nat) (hol : o + l ≤ A.length) :
    slice (A.take j ++ B.drop j) o l = (slice A o l).take (j - o) ++ (slice B o l).drop (j - o) := by
  apply List.ext_getElem?
  intro t
  simp only [slice, List.getElem?_take, List.getElem?_drop, List.getElem?_append, List.length_take,
    List.length_drop]
  grind

/-- where the two strings agree on a region, so does any mix of them -/
theorem slice_mix_eq (A B : Bytes) (hl : A.length = B.length) (j o l : Nat) (hol : o + l ≤ A.length)
    (he : slice A o l = slice B o l) : slice (A.take j ++ B.drop j) o l = slice A o l := by
  rw [slice_mix A B hl j o l hol, ← he, List.take_append_drop]

theorem slice_encDesc_used (d : RawDesc) : slice (encDesc d) 4 1 = encBool d.used := by
  simp [encDesc, slice_skip, slice_take, List.append_assoc]

theorem slice_encDesc_off (d : RawDesc) : slice (encDesc d) 17 8 = encS 8 d.off := by
  simp [encDesc, slice_skip, slice_take, List.append_assoc]

theorem slice_encDesc_size (d : RawDesc) : slice (encDesc d) 25 8 = encS 8 d.size := by
  simp [encDesc, slice_skip, slice_take, List.append_assoc]

/-- **a half-written descriptor is loadable** when the old and the new contents of the slot both
    have non-negative offset and size -/
theorem mix_loadable (d d' : RawDesc) (r : Nat)
    (h : 0 ≤ d.off ∧ d.off ≤ maxI64 ∧ 0 ≤ d.size ∧ d.size ≤ maxI64)
    (h' : 0 ≤ d'.off ∧ d'.off ≤ maxI64 ∧ 0 ≤ d'.size ∧ d'.size ≤ maxI64) :
    loadable (decDesc ((encDesc d').take r ++ (encDesc d).drop r)) = true := by
  have hoff : 0 ≤ (decDesc ((encDesc d').take r ++ (encDesc d).drop r)).off := by
    simp only [decDesc]
    rw [slice_mix _ _ (by simp) r 17 8 (by simp), slice_encDesc_off, slice_encDesc_off]
    exact decS8_mix_nonneg d'.off d.off ⟨h'.1, h'.2.1⟩ ⟨h.1, h.2.1⟩ _
  have hsize : 0 ≤ (decDesc ((encDesc d').take r ++ (encDesc d).drop r)).size := by
    simp only [decDesc]
    rw [slice_mix _ _ (by simp) r 25 8 (by simp), slice_encDesc_size, slice_encDesc_size]
    exact decS8_mix_nonneg d'.size d.size ⟨h'.2.2.1, h'.2.2.2⟩ ⟨h.2.2.1, h.2.2.2⟩ _
  unfold loadable
  have a : decide ((decDesc ((encDesc d').take r ++ (encDesc d).drop r)).off < 0) = false := by
    simp only [decide_eq_false_iff_not]; omega
  have b : decide ((decDesc ((encDesc d').take r ++ (encDesc d).drop r)).size < 0) = false := by
    simp only [decide_eq_false_iff_not]; omega
  simp [a, b]

/-! ### a partially applied write -/

/-- the bytes of a region after only the first `j` bytes of `p` were written over it -/
theorem slice_writeAt_take (buf : Bytes) (off : Nat) (p : Bytes) (j : Nat)
    (hin : off + p.length ≤ buf.length) :
    slice (writeAt buf off (p.take j)) off p.length = p.take j ++ (slice buf off p.length).drop j := by
  apply List.ext_getElem?
  intro t
  simp only [slice, List.getElem?_take, List.getElem?_drop, List.getElem?_append, List.length_take,
    writeAt_get]
  grind

theorem writeAt_take_length (buf : Bytes) (off : Nat) (p : Bytes) (j : Nat)
    (hin : off + p.length ≤ buf.length) : (writeAt buf off (p.take j)).length = buf.length := by
  simp only [writeAt_length, List.length_take]
  omega

/-- the store after a torn write at `pos`, on either backing store -/
theorem torn_write_buf (st : Store) (pos : Nat) (p : Bytes) (j : Nat) (hin : pos + p.length ≤ st.buf.length) :
    (({ st with pos := pos } : Store).write (p.take j)).buf.length = st.buf.length ∧
    slice (({ st with pos := pos } : Store).write (p.take j)).buf pos p.length =
      p.take j ++ (slice st.buf pos p.length).drop j ∧
    ∀ a l, (a + l ≤ pos ∨ pos + p.length ≤ a) → a + l ≤ st.buf.length →
      slice (({ st with pos := pos } : Store).write (p.take j)).buf a l = slice st.buf a l := by
  have key : (writeAt st.buf pos (p.take j)).length = st.buf.length ∧
      slice (writeAt st.buf pos (p.take j)) pos p.length = p.take j ++ (slice st.buf pos p.length).drop j ∧
      ∀ a l, (a + l ≤ pos ∨ pos + p.length ≤ a) → a + l ≤ st.buf.length →
        slice (writeAt st.buf pos (p.take j)) a l = slice st.buf a l := by
    refine ⟨writeAt_take_length _ _ _ _ hin, slice_writeAt_take _ _ _ _ hin, fun a l h1 h2 => ?_⟩
    apply slice_writeAt_frame _ _ _ _ _ _ h2
    simp only [List.length_take]
    omega
  cases hbe : st.be with
  | buf => simp only [Store.write, hbe]; exact key
  | file =>
    simp only [Store.write, hbe]
    split
    · -- nothing reached the file
      rename_i he
      have he' : p.take j = [] := by simpa using he
      refine ⟨rfl, ?_, fun _ _ _ _ => rfl⟩
      rw [he']
      have : j = 0 ∨ p = [] := by
        cases p with
        | nil => exact Or.inr rfl
        | cons x xs =>
          cases j with
          | zero => exact Or.inl rfl
          | succ j => simp at he'
      rcases this with rfl | rfl
      · simp
      · simp [slice]
    · exact key

/-! ### the loader on raw bytes -/

theorem readDescriptors_raw (buf : Bytes) (doff dsize : Int) (N : Nat)
    (h0 : 0 ≤ doff) (hsz : (585 * N : Int) ≤ dsize)
    (hlen : N ≠ 0 → doff.toNat + 585 * N ≤ buf.length) (hov : doff + dsize ≤ maxI64)
    (hl : ∀ k, k < N → loadable (decDesc (slice buf (doff.toNat + 585 * k) 585)) = true)
    (n i : Nat) (acc : List RawDesc) (hni : i + n = N) :
    readDescriptors buf doff dsize n i acc =
      .ok (acc ++ (List.range' i n).map (fun k => decDesc (slice buf (doff.toNat + 585 * k) 585))) := by
  induction n generalizing i acc with
  | zero => simp [readDescriptors]
  | succ n ih =>
    have hi : i < N := by omega
    have hlen := hlen (by omega)
    unfold readDescriptors
    rw [sectionRead_ok buf doff dsize (585 * i) 585 h0 (by omega) (by omega) hov]
    have hld := hl i hi
    simp only [loadable, Bool.not_eq_true'] at hld
    simp only [hld, Bool.false_eq_true, ↓reduceIte]
    rw [ih (i + 1) _ (by omega)]
    simp [List.range'_succ]

/-- `loadContainer` in terms of the bytes alone -/
theorem loadContainer_raw (st : Store) (hlen128 : 128 ≤ st.buf.length)
    (hm : (decHdr (slice st.buf 0 128)).magic = hdrMagic)
    (hver : (decHdr (slice st.buf 0 128)).version = curVersion)
    (ht : 0 ≤ (decHdr (slice st.buf 0 128)).dtotal) (h0 : 0 ≤ (decHdr (slice st.buf 0 128)).doff)
    (hsz : 585 * (decHdr (slice st.buf 0 128)).dtotal ≤ (decHdr (slice st.buf 0 128)).dsize)
    (hlen : (decHdr (slice st.buf 0 128)).dtotal.toNat ≠ 0 →
      (decHdr (slice st.buf 0 128)).doff.toNat + 585 * (decHdr (slice st.buf 0 128)).dtotal.toNat ≤ st.buf.length)
    (hov : (decHdr (slice st.buf 0 128)).doff + (decHdr (slice st.buf 0 128)).dsize ≤ maxI64)
    (hl : ∀ k, k < (decHdr (slice st.buf 0 128)).dtotal.toNat →
      loadable (decDesc (slice st.buf ((decHdr (slice st.buf 0 128)).doff.toNat + 585 * k) 585)) = true) :
    loadContainer st = .ok
      { h := decHdr (slice st.buf 0 128),
        rds := (List.range' 0 (decHdr (slice st.buf 0 128)).dtotal.toNat).map
          (fun k => decDesc (slice st.buf ((decHdr (slice st.buf 0 128)).doff.toNat + 585 * k) 585)),
        minIDs := populateMinIDs ((List.range' 0 (decHdr (slice st.buf 0 128)).dtotal.toNat).map
          (fun k => decDesc (slice st.buf ((decHdr (slice st.buf 0 128)).doff.toNat + 585 * k) 585))),
        st := st } := by
  unfold loadContainer
  rw [sectionRead_ok st.buf 0 128 0 128 (by omega) (by omega) (by simpa using hlen128) (by unfold maxI64; omega)]
  simp only [Int.toNat_zero, Nat.zero_add]
  generalize hh : decHdr (slice st.buf 0 128) = h at *
  simp only [hm, hver, bne_self_eq_false, Bool.false_eq_true, ↓reduceIte, show ¬ h.dtotal < 0 by omega,
    show ¬ h.doff < 0 by omega]
  rw [readDescriptors_raw st.buf h.doff h.dsize h.dtotal.toNat h0 (by omega) hlen hov hl h.dtotal.toNat 0 []
    (by omega)]
  simp

end Sif

namespace Sif

/-- all slots (in use or not) hold non-negative offset and size: true of every image the library
    produces (freed slots are zeroed); a foreign image may violate it (finding D11) -/
def CleanSlots (rds : List RawDesc) : Prop := ∀ d ∈ rds, 0 ≤ d.off ∧ 0 ≤ d.size

theorem clean_bounds (rds : List RawDesc) (C : CleanSlots rds) (dv : ∀ d ∈ rds, d.Valid) (d : RawDesc)
    (hd : d ∈ rds) : 0 ≤ d.off ∧ d.off ≤ maxI64 ∧ 0 ≤ d.size ∧ d.size ≤ maxI64 := by
  obtain ⟨a, b⟩ := C d hd
  have v := dv d hd
  have h1 := v.off
  have h2 := v.size
  unfold I64 at h1 h2
  unfold maxI64
  omega

/-- **the table write torn after `j` bytes** (any `j`, including none and all): the file loads
    with the old header, and every slot whose old and new descriptors coincide holds that
    descriptor.  Stated for any store whose bytes are those the torn write leaves. -/
theorem torn_table_loads (s : Img) (W : WF s) (R : Ranges s) (s' : Img) (Rn : Ranges s')
    (hll : s'.rds.length = s.rds.length) (hne : s.rds ≠ [])
    (Cold : CleanSlots s.rds) (Cnew : CleanSlots s'.rds)
    (s1 st2 : Store) (S1 : SyncedAt s.h s.rds s1.buf) (j : Nat)
    (hL : st2.buf.length = s1.buf.length)
    (hT : slice st2.buf s.h.doff.toNat (encTable s'.rds).length =
      (encTable s'.rds).take j ++ (slice s1.buf s.h.doff.toNat (encTable s'.rds).length).drop j)
    (hF : ∀ a l, (a + l ≤ s.h.doff.toNat ∨ s.h.doff.toNat + (encTable s'.rds).length ≤ a) →
      a + l ≤ s1.buf.length → slice st2.buf a l = slice s1.buf a l) :
    ∃ s2, loadContainer st2 = .ok s2 ∧ s2.h = s.h ∧
      ∀ (i : Nat) (d : RawDesc), s.rds[i]? = some d → s'.rds[i]? = some d → s2.rds[i]? = some d := by
  have h128 := W.doff
  have hdn : 128 ≤ s.h.doff.toNat := by omega
  have hlen1 := S1.hlen
  have htl := S1.tlen hne
  have hTl : (encTable s'.rds).length = 585 * s.rds.length := by rw [encTable_length, hll]
  rw [hTl] at hT hF
  rw [S1.htab] at hT
  -- the header is untouched
  have hhdr : slice st2.buf 0 128 = encHdr s.h := by
    rw [hF 0 128 (Or.inl (by omega)) (by omega)]; exact S1.hhdr
  have hdec : decHdr (slice st2.buf 0 128) = s.h := by rw [hhdr, decHdr_encHdr s.h R.hv]
  have hnat : s.h.dtotal.toNat = s.rds.length := by rw [W.total]; simp
  -- the bytes of slot k
  have hslot : ∀ k (hk : k < s.rds.length),
      slice st2.buf (s.h.doff.toNat + 585 * k) 585 =
        (encDesc (s'.rds[k]'(by omega))).take (j - 585 * k) ++ (encDesc s.rds[k]).drop (j - 585 * k) := by
    intro k hk
    rw [← slice_slice st2.buf s.h.doff.toNat (585 * s.rds.length) (585 * k) 585 (by omega), hT,
      slice_mix _ _ (by simp [encTable_length, hll]) j (585 * k) 585 (by simp [encTable_length, hll]; omega),
      encTable_slot s'.rds k _ (List.getElem?_eq_getElem (by omega)),
      encTable_slot s.rds k _ (List.getElem?_eq_getElem hk)]
  have hl : ∀ k, k < (decHdr (slice st2.buf 0 128)).dtotal.toNat →
      loadable (decDesc (slice st2.buf ((decHdr (slice st2.buf 0 128)).doff.toNat + 585 * k) 585)) = true := by
    intro k hk
    rw [hdec] at hk ⊢
    rw [hnat] at hk
    rw [hslot k hk]
    exact mix_loadable _ _ _ (clean_bounds s.rds Cold R.dv _ (List.getElem_mem hk))
      (clean_bounds s'.rds Cnew Rn.dv _ (List.getElem_mem (by omega)))
  have hload := loadContainer_raw st2 (by omega) (by rw [hdec]; exact W.magic) (by rw [hdec]; exact W.version)
    (by rw [hdec, W.total]; omega) (by rw [hdec]; omega) (by rw [hdec, W.total]; have := W.dsize; omega)
    (by rw [hdec, hnat]; intro _; omega)
    (by rw [hdec]
        have h1 := W.tabRegion
        have h2 := R.hv.dataOff
        unfold I64 at h2; unfold maxI64; omega) hl
  refine ⟨_, hload, hdec, ?_⟩
  intro i d hd hd'
  have hi : i < s.rds.length := by
    rcases Nat.lt_or_ge i s.rds.length with h | h
    · exact h
    · rw [List.getElem?_eq_none h] at hd; cases hd
  have hr : (List.range' 0 s.rds.length)[i]? = some i := by
    rw [List.getElem?_range' hi]; simp
  simp only [hdec, hnat, List.getElem?_map, hr, Option.map_some]
  rw [hslot i hi]
  have e1 : s.rds[i] = d := by
    rw [List.getElem?_eq_getElem hi] at hd; exact Option.some.inj hd
  have e2 : s'.rds[i]'(by omega) = d := by
    rw [List.getElem?_eq_getElem (by omega)] at hd'; exact Option.some.inj hd'
  rw [e1, e2, List.take_append_drop, decDesc_encDesc d (R.dv d (List.mem_of_getElem? hd))]

end Sif

namespace Sif

variable (sha : Bytes → Bytes) (ph : Bytes → Option Bytes)

/-- no operation changes the size the header records for the descriptor table -/
theorem plan_dsize (s : Img) (op : Op) (now : Int) : (plan sha ph s op now).2.1.h.dsize = s.h.dsize := by
  cases op with
  | add di t =>
    simp only [plan]
    rcases addObjectPlan_cases sha ph s di t now with ⟨calls, e, h⟩ | ⟨calls, d, arch, _, _, _, h⟩
    · rw [h]
    · simp only at h; rw [h]; simp [commitObject]
  | del sel z c t =>
    simp only [plan]
    rcases deleteObjectsPlan_cases ph s sel z c t now with ⟨calls, e, h⟩ | ⟨_, _, h⟩
    · rw [h]
    · rw [h]
      have := hdrAfterDelete_doff s.h (s.rds.filter (hit ph sel))
      cases c <;> simp [deleteResult, deleteFinish, this]
  | setPrim id t =>
    simp only [plan]
    rcases setPrimPartPlan_cases ph s id t now with ⟨r, h⟩ | ⟨k, rds1, _, h⟩
    · rw [h]
    · rw [h]; simp [setPrimResult]
  | setMeta id md t =>
    simp only [plan, setMetadataPlan]
    cases h1 : getDescriptorIdx ph s.rds [Sel.id id] with
    | error e => rfl
    | ok k =>
      simp only
      rcases setExtraPlan_cases sha s k md (resolveTime s t now) with ⟨e, h⟩ | ⟨d', _, h⟩
      · rw [h]
      · simp only at h; rw [h]
  | setOCI id text t =>
    simp only [plan, setOCIBlobDigestPlan]
    cases h1 : getDescriptorIdx ph s.rds [Sel.id id] with
    | error e => rfl
    | ok k =>
      simp only
      split
      · rfl
      · rcases setExtraPlan_cases sha s k (.ociText text) (resolveTime s t now) with ⟨e, h⟩ | ⟨d', _, h⟩
        · rw [h]
        · simp only at h; rw [h]
  | reload => rfl

theorem slice_encHdr_magic (h : Hdr) : slice (encHdr h) 32 10 = pad 10 h.magic := by
  simp [encHdr, slice_skip, slice_take, List.append_assoc]
theorem slice_encHdr_version (h : Hdr) : slice (encHdr h) 42 3 = pad 3 h.version := by
  simp [encHdr, slice_skip, slice_take, List.append_assoc]
theorem slice_encHdr_dtotal (h : Hdr) : slice (encHdr h) 88 8 = encS 8 h.dtotal := by
  simp [encHdr, slice_skip, slice_take, List.append_assoc]
theorem slice_encHdr_doff (h : Hdr) : slice (encHdr h) 96 8 = encS 8 h.doff := by
  simp [encHdr, slice_skip, slice_take, List.append_assoc]
theorem slice_encHdr_dsize (h : Hdr) : slice (encHdr h) 104 8 = encS 8 h.dsize := by
  simp [encHdr, slice_skip, slice_take, List.append_assoc]

/-- the fields the loader looks at, in a byte mix of two headers that agree on them -/
theorem decHdr_mix (h h' : Hdr) (v : h.Valid) (j : Nat)
    (e1 : h'.magic = h.magic) (e2 : h'.version = h.version) (e3 : h'.dtotal = h.dtotal)
    (e4 : h'.doff = h.doff) (e5 : h'.dsize = h.dsize) :
    (decHdr ((encHdr h').take j ++ (encHdr h).drop j)).magic = h.magic ∧
    (decHdr ((encHdr h').take j ++ (encHdr h).drop j)).version = h.version ∧
    (decHdr ((encHdr h').take j ++ (encHdr h).drop j)).dtotal = h.dtotal ∧
    (decHdr ((encHdr h').take j ++ (encHdr h).drop j)).doff = h.doff ∧
    (decHdr ((encHdr h').take j ++ (encHdr h).drop j)).dsize = h.dsize := by
  have hl : (encHdr h').length = (encHdr h).length := by simp
  simp only [decHdr]
  refine ⟨?_, ?_, ?_, ?_, ?_⟩
  · rw [slice_mix_eq _ _ hl j 32 10 (by simp) (by rw [slice_encHdr_magic, slice_encHdr_magic, e1]),
      slice_encHdr_magic, e1, pad_of_length _ _ v.magic]
  · rw [slice_mix_eq _ _ hl j 42 3 (by simp) (by rw [slice_encHdr_version, slice_encHdr_version, e2]),
      slice_encHdr_version, e2, pad_of_length _ _ v.version]
  · rw [slice_mix_eq _ _ hl j 88 8 (by simp) (by rw [slice_encHdr_dtotal, slice_encHdr_dtotal, e3]),
      slice_encHdr_dtotal, e3, decS8_encS8 _ v.dtotal]
  · rw [slice_mix_eq _ _ hl j 96 8 (by simp) (by rw [slice_encHdr_doff, slice_encHdr_doff, e4]),
      slice_encHdr_doff, e4, decS8_encS8 _ v.doff]
  · rw [slice_mix_eq _ _ hl j 104 8 (by simp) (by rw [slice_encHdr_dsize, slice_encHdr_dsize, e5]),
      slice_encHdr_dsize, e5, decS8_encS8 _ v.dsize]

end Sif

namespace Sif

/-- **the header write torn after `j` bytes** (the table already rewritten): the file loads, with
    the new table -/
theorem torn_header_loads (s : Img) (W : WF s) (R : Ranges s) (s' : Img) (M' : WFmem s') (Rn : Ranges s')
    (hdd : s'.h.doff = s.h.doff) (hll : s'.rds.length = s.rds.length) (hds : s'.h.dsize = s.h.dsize)
    (hne : s.rds ≠ []) (s3 st4 : Store) (S3 : SyncedAt s.h s'.rds s3.buf) (j : Nat)
    (hL : st4.buf.length = s3.buf.length)
    (hT : slice st4.buf 0 (encHdr s'.h).length =
      (encHdr s'.h).take j ++ (slice s3.buf 0 (encHdr s'.h).length).drop j)
    (hF : ∀ a l, (a + l ≤ 0 ∨ 0 + (encHdr s'.h).length ≤ a) → a + l ≤ s3.buf.length →
      slice st4.buf a l = slice s3.buf a l) :
    ∃ s2, loadContainer st4 = .ok s2 ∧ s2.rds = s'.rds := by
  have h128 := W.doff
  have hdn : 128 ≤ s.h.doff.toNat := by omega
  have hne' : s'.rds ≠ [] := by
    intro e; apply hne
    cases hr : s.rds with
    | nil => rfl
    | cons => rw [e, hr] at hll; simp at hll
  have htl := S3.tlen hne'
  rw [hll] at htl
  simp only [encHdr_length] at hT hF
  rw [S3.hhdr] at hT
  obtain ⟨m1, m2, m3, m4, m5⟩ := decHdr_mix s.h s'.h R.hv j (by rw [M'.magic, W.magic])
    (by rw [M'.version, W.version]) (by rw [M'.total, W.total, hll]) hdd hds
  rw [← hT] at m1 m2 m3 m4 m5
  have hnat : s.h.dtotal.toNat = s.rds.length := by rw [W.total]; simp
  -- the table is untouched by the header write
  have hslot : ∀ k (hk : k < s.rds.length),
      slice st4.buf (s.h.doff.toNat + 585 * k) 585 = encDesc (s'.rds[k]'(by omega)) := by
    intro k hk
    rw [hF _ _ (Or.inr (by omega)) (by omega),
      ← slice_slice s3.buf s.h.doff.toNat (585 * s'.rds.length) (585 * k) 585 (by omega), S3.htab]
    exact encTable_slot s'.rds k _ (List.getElem?_eq_getElem (by omega))
  have hl : ∀ k, k < (decHdr (slice st4.buf 0 128)).dtotal.toNat →
      loadable (decDesc (slice st4.buf ((decHdr (slice st4.buf 0 128)).doff.toNat + 585 * k) 585)) = true := by
    intro k hk
    rw [m3, hnat] at hk
    rw [m4, hslot k hk, decDesc_encDesc _ (Rn.dv _ (List.getElem_mem (by omega)))]
    unfold loadable
    cases hu : (s'.rds[k]'(by omega)).used with
    | false => rfl
    | true =>
      obtain ⟨a, b⟩ := M'.lo _ (List.getElem_mem (by omega)) hu
      have a' : decide ((s'.rds[k]'(by omega)).off < 0) = false := by simp; omega
      have b' : decide ((s'.rds[k]'(by omega)).size < 0) = false := by simp; omega
      simp [a', b']
  have hload := loadContainer_raw st4 (by have := S3.hlen; omega) (by rw [m1]; exact W.magic)
    (by rw [m2]; exact W.version) (by rw [m3, W.total]; omega) (by rw [m4]; omega)
    (by rw [m3, m5, W.total]; have := W.dsize; omega)
    (by rw [m3, m4, hnat]; intro _; omega)
    (by rw [m4, m5]
        have h1 := W.tabRegion
        have h2 := R.hv.dataOff
        unfold I64 at h2; unfold maxI64; omega) hl
  refine ⟨_, hload, ?_⟩
  simp only [m3, m4, hnat]
  apply List.ext_getElem
  · simp [hll]
  · intro i h1 h2
    simp only [List.length_map, List.length_range'] at h1
    simp only [List.getElem_map, List.getElem_range', Nat.zero_add, Nat.one_mul]
    rw [hslot i h1, decDesc_encDesc _ (Rn.dv _ (List.getElem_mem (by omega)))]

end Sif

namespace Sif

variable (sha : Bytes → Bytes) (ph : Bytes → Option Bytes)

theorem clean_of_keys (rds rds' : List RawDesc) (hk : rds'.map key = rds.map key) (C : CleanSlots rds) :
    CleanSlots rds' := by
  intro d hd
  have : key d ∈ rds.map key := hk ▸ List.mem_map.mpr ⟨d, hd, rfl⟩
  obtain ⟨x, hx, hkx⟩ := List.mem_map.mp this
  simp only [key, Prod.mk.injEq] at hkx
  obtain ⟨_, _, _, e1, e2⟩ := hkx
  rw [← e1, ← e2]
  exact C x hx

/-- **clean slots stay clean**: every operation writes non-negative offsets and sizes (a new
    object's, or zeros for a freed slot) and leaves the others as they were -/
theorem clean_plan (s : Img) (W : WF s) (C : CleanSlots s.rds) (op : Op) (now : Int) :
    CleanSlots (plan sha ph s op now).2.1.rds := by
  cases op with
  | add di t =>
    simp only [plan]
    rcases addObjectPlan_cases sha ph s di t now with ⟨calls, e, h⟩ | ⟨calls, d, arch, hi, _, hw, h⟩
    · rw [h]; exact C
    · simp only at h
      rw [h]
      obtain ⟨off, hn, _, _, _, _, hoffd, hszd, _⟩ := writeDataObjectAt_ok sha _ di _ _ d calls hw
      have hge := nextAligned_ge _ _ _ hn
      have := calculatedDataSize_nonneg s.h s.rds
      have := W.doff
      have := W.tabEnd
      intro x hx
      simp only [commitObject] at hx
      rcases List.mem_or_eq_of_mem_set hx with hx | rfl
      · exact C x hx
      · rw [hoffd, hszd]; omega
  | del sel z c t =>
    simp only [plan]
    rcases deleteObjectsPlan_cases ph s sel z c t now with ⟨calls, e, h⟩ | ⟨_, _, h⟩
    · rw [h]; exact C
    · rw [h]
      intro x hx
      simp only [deleteResult, deleteFinish, List.mem_map] at hx
      obtain ⟨y, hy, rfl⟩ := hx
      split
      · simp [zeroDesc]
      · exact C y hy
  | setPrim id t =>
    simp only [plan]
    rcases setPrimPartPlan_cases ph s id t now with ⟨r, h⟩ | ⟨k, rds1, hd, h⟩
    · rw [h]; exact C
    · rw [h]
      have hk1 := demotePrimary_keys ph s.rds rds1 _ hd
      apply clean_of_keys s.rds _ _ C
      simp only [setPrimResult]
      rw [map_key_set rds1 k _ (by simp [key]), hk1]
  | setMeta id md t =>
    simp only [plan, setMetadataPlan]
    cases h1 : getDescriptorIdx ph s.rds [Sel.id id] with
    | error e => exact C
    | ok k =>
      simp only
      rcases setExtraPlan_cases sha s k md (resolveTime s t now) with ⟨e, h⟩ | ⟨d', hd', h⟩
      · rw [h]; exact C
      · simp only at h
        rw [h]
        apply clean_of_keys s.rds _ _ C
        exact map_key_set s.rds k _ (by
          have := setExtra_key sha [] md _ d' hd'
          simpa [key] using this)
  | setOCI id text t =>
    simp only [plan, setOCIBlobDigestPlan]
    cases h1 : getDescriptorIdx ph s.rds [Sel.id id] with
    | error e => exact C
    | ok k =>
      simp only
      split
      · exact C
      · rcases setExtraPlan_cases sha s k (.ociText text) (resolveTime s t now) with ⟨e, h⟩ | ⟨d', hd', h⟩
        · rw [h]; exact C
        · simp only at h
          rw [h]
          apply clean_of_keys s.rds _ _ C
          exact map_key_set s.rds k _ (by
            have := setExtra_key sha [] (.ociText text) _ d' hd'
            simpa [key] using this)
  | reload => exact C

end Sif
