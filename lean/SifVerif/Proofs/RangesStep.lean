/-
  Proofs/RangesStep.lean — `Ranges` (every number of the handle is representable in its Go type,
  every array field has its fixed length) is preserved by every operation whose *inputs* are
  representable and which does not push the end of the file beyond int64.
-/
import SifVerif.Proofs.Refine
namespace Sif

variable (sha : Bytes → Bytes) (ph : Bytes → Option Bytes)

def TOpt.InRange : TOpt → Prop
  | .at t => I64 t
  | _ => True

/-- what an operation brings in from outside is representable: the clock reading, explicit times,
    the Go-typed fields of a descriptor input (`DataType` int32, link `uint32`, time `int64`, a
    3-byte architecture code), and — for an add — the new end of the data section fits int64 -/
def Op.InRange (s : Img) (op : Op) (now : Int) : Prop :=
  I64 now ∧
  match op with
  | .add di t =>
    t.InRange ∧ I32 di.dt ∧ U32 di.linkID ∧ I64 di.objTime ∧
    (∀ fs pt a, di.md = .part fs pt a → a.length = 3) ∧
    (∀ off, nextAligned (s.h.dataOff + calculatedDataSize s.h s.rds) di.alignment = .ok off →
      off + di.content.length ≤ maxI64)
  | .del _ _ _ t => t.InRange
  | .setPrim _ t => t.InRange
  | .setMeta _ _ t => t.InRange
  | .setOCI _ _ t => t.InRange
  | .reload => True

theorem I64_zeroTime : I64 zeroTime := by unfold I64 zeroTime; omega

theorem resolveTime_I64 (s : Img) (t : TOpt) (now : Int) (hn : I64 now) (ht : t.InRange) :
    I64 (resolveTime s t now) := by
  cases t with
  | dflt => simp only [resolveTime]; split <;> first | exact I64_zeroTime | exact hn
  | det => exact I64_zeroTime
  | «at» x => exact ht

theorem zeroDesc_valid : zeroDesc.Valid := by
  constructor <;> simp [zeroDesc, I32, I64, U32]

theorem valid_set (rds : List RawDesc) (i : Nat) (d : RawDesc)
    (h : ∀ x ∈ rds, x.Valid) (hd : d.Valid) : ∀ x ∈ rds.set i d, x.Valid := by
  intro x hx
  rcases List.mem_or_eq_of_mem_set hx with h1 | h1
  · exact h x h1
  · rw [h1]; exact hd

theorem valid_getD (rds : List RawDesc) (i : Nat) (h : ∀ x ∈ rds, x.Valid) : (rds.getD i zeroDesc).Valid := by
  by_cases hi : i < rds.length
  · have : rds.getD i zeroDesc = rds[i] := by simp [List.getD, hi]
    rw [this]; exact h _ (List.getElem_mem hi)
  · have : rds.getD i zeroDesc = zeroDesc := by
      simp [List.getD, List.getElem?_eq_none (Nat.le_of_not_lt hi)]
    rw [this]; exact zeroDesc_valid

/-- `setExtra` changes the `extra` field only, to a 384-byte value -/
theorem setExtra_valid (copied : Bytes) (md : MDIn) (d d' : RawDesc) (hv : d.Valid)
    (h : setExtra sha copied md d = .ok d') : d'.Valid := by
  unfold setExtra at h
  split at h
  · cases h
  · cases h; exact hv
  · split at h
    · cases h
    · cases h
      exact { hv with extra := by simp }

theorem retime_valid (d : RawDesc) (t : Int) (hv : d.Valid) (ht : I64 t) : ({ d with mtime := t } : RawDesc).Valid :=
  { hv with mtime := ht }

theorem reextra_valid (d : RawDesc) (b : Bytes) (t : Int) (hv : d.Valid) (ht : I64 t) :
    ({ d with extra := pad 384 b, mtime := t } : RawDesc).Valid :=
  { hv with mtime := ht, extra := by simp }

theorem demotePrimary_valid (rds rds1 : List RawDesc) (t : Int) (ht : I64 t)
    (hv : ∀ x ∈ rds, x.Valid) (h : demotePrimary ph rds t = .ok rds1) : ∀ x ∈ rds1, x.Valid := by
  unfold demotePrimary at h
  split at h
  · cases h
    exact valid_set _ _ _ hv (reextra_valid _ _ t (valid_getD _ _ hv) ht)
  · cases h; exact hv
  · cases h

theorem or_mask_U32 (n : Nat) : U32 (n % u32Mod ||| descrGroupMask) := by
  unfold U32
  have h1 : n % u32Mod < 2 ^ 32 := by unfold u32Mod; omega
  have h2 : descrGroupMask < 2 ^ 32 := by unfold descrGroupMask; omega
  have := Nat.or_lt_two_pow h1 h2
  omega

/-- no live object ends beyond int64 (so that `Offset + Size`, which the library computes, does not wrap) -/
def EndsOK (s : Img) : Prop := ∀ d ∈ s.rds, d.used = true → d.off + d.size ≤ maxI64

theorem filter_hit_le_live (rds : List RawDesc) (sel : Sel) :
    (rds.filter (hit ph sel)).length ≤ (live rds).length := by
  induction rds with
  | nil => simp [live]
  | cons d ds ih =>
    unfold live at ih ⊢
    simp only [List.filter_cons]
    cases hu : d.used <;> cases hh : hit ph sel d <;> simp_all [hit] <;> omega

theorem calc_I64 (h : Hdr) (rds : List RawDesc) (hoff : 0 ≤ h.dataOff)
    (he : ∀ d ∈ rds, d.used = true → d.off + d.size ≤ maxI64) : I64 (calculatedDataSize h rds) := by
  have h0 := calculatedDataSize_nonneg h rds
  unfold I64
  refine ⟨by omega, ?_⟩
  unfold calculatedDataSize at h0 ⊢
  rcases foldl_max_attained (live rds) h.dataOff with h1 | ⟨d, hd, h1⟩
  · rw [h1]; omega
  · rw [h1]
    have hd' : d ∈ rds ∧ d.used = true := by simpa [live] using hd
    have := he d hd'.1 hd'.2
    unfold maxI64 at this
    omega

theorem EndsOK_of_keys (rds rds' : List RawDesc) (hk : rds'.map key = rds.map key)
    (E : ∀ d ∈ rds, d.used = true → d.off + d.size ≤ maxI64) :
    ∀ d ∈ rds', d.used = true → d.off + d.size ≤ maxI64 := by
  intro x hx hu
  have : key x ∈ rds'.map key := List.mem_map.mpr ⟨x, hx, rfl⟩
  rw [hk] at this
  obtain ⟨y, hy, hky⟩ := List.mem_map.mp this
  simp only [key, Prod.mk.injEq] at hky
  obtain ⟨k1, _, _, k4, k5⟩ := hky
  have := E y hy (by rw [k1]; exact hu)
  omega

theorem add_ok_slot_lt (s : Img) (di : DI) (t : TOpt) (now : Int)
    (hok : (addObjectPlan sha ph s di t now).2.2 = .ok) : (findFreeSlot s.rds : Int) < maxU32 := by
  unfold addObjectPlan writeDataObject at hok
  by_cases h1 : findFreeSlot s.rds ≥ s.rds.length
  · simp [h1] at hok
  · by_cases h2 : (findFreeSlot s.rds : Int) ≥ maxU32
    · simp [h1, h2] at hok
    · omega

theorem primaryCheck_some (s : Img) (md : MDIn) (a : Bytes) (h : primaryCheck ph s md = .ok (some a)) :
    ∃ fs pt, md = .part fs pt a := by
  unfold primaryCheck at h
  cases md with
  | part fs pt arch =>
    simp only at h
    split at h
    · split at h
      · cases h
      · simp only [Except.ok.injEq, Option.some.injEq] at h; exact ⟨fs, pt, by rw [h]⟩
    · cases h
  | _ => simp at h

theorem Ranges_plan (s : Img) (W : WF s) (R : Ranges s) (E : EndsOK s) (op : Op) (now : Int)
    (hin : Op.InRange s op now) :
    Ranges (plan sha ph s op now).2.1 ∧ EndsOK (plan sha ph s op now).2.1 := by
  obtain ⟨hnow, hop⟩ := hin
  have hdo : 0 ≤ s.h.dataOff := by have := W.doff; have := W.tabEnd; omega
  cases op with
  | reload => exact ⟨R, E⟩
  | setMeta id md t =>
    have ht := resolveTime_I64 s t now hnow hop
    simp only [plan, setMetadataPlan]
    cases getDescriptorIdx ph s.rds [Sel.id id] with
    | error e => exact ⟨R, E⟩
    | ok i =>
      dsimp only
      rcases setExtraPlan_cases sha s i md (resolveTime s t now) with ⟨e, h⟩ | ⟨d, hd, h⟩
      · rw [h]; exact ⟨R, E⟩
      · simp only at h
        rw [h]
        refine ⟨⟨{ R.hv with mtime := ht }, ?_⟩, ?_⟩
        · exact valid_set _ _ _ R.dv (retime_valid _ _ (setExtra_valid sha _ _ _ _ (valid_getD _ _ R.dv) hd) ht)
        · exact EndsOK_of_keys s.rds _ (map_key_set s.rds i _ (by
            have := setExtra_key sha [] md _ d hd
            simpa [key] using this)) E
  | setOCI id text t =>
    have ht := resolveTime_I64 s t now hnow hop
    simp only [plan, setOCIBlobDigestPlan]
    cases getDescriptorIdx ph s.rds [Sel.id id] with
    | error e => exact ⟨R, E⟩
    | ok i =>
      dsimp only
      split
      · exact ⟨R, E⟩
      · rcases setExtraPlan_cases sha s i (.ociText text) (resolveTime s t now) with ⟨e, h⟩ | ⟨d, hd, h⟩
        · rw [h]; exact ⟨R, E⟩
        · simp only at h
          rw [h]
          refine ⟨⟨{ R.hv with mtime := ht }, ?_⟩, ?_⟩
          · exact valid_set _ _ _ R.dv (retime_valid _ _ (setExtra_valid sha _ _ _ _ (valid_getD _ _ R.dv) hd) ht)
          · exact EndsOK_of_keys s.rds _ (map_key_set s.rds i _ (by
              have := setExtra_key sha [] (.ociText text) _ d hd
              simpa [key] using this)) E
  | setPrim id t =>
    have ht := resolveTime_I64 s t now hnow hop
    simp only [plan]
    rcases setPrimPartPlan_cases ph s id t now with ⟨r, h⟩ | ⟨i, rds1, hdm, h⟩
    · rw [h]; exact ⟨R, E⟩
    · rw [h]
      have hv1 := demotePrimary_valid ph s.rds rds1 _ ht R.dv hdm
      have hk1 := demotePrimary_keys ph s.rds rds1 _ hdm
      refine ⟨?_, ?_⟩
      · unfold setPrimResult
        refine ⟨{ R.hv with mtime := ht, arch := by simp }, ?_⟩
        exact valid_set _ _ _ hv1 (reextra_valid _ _ _ (valid_getD _ _ hv1) ht)
      · refine EndsOK_of_keys s.rds _ ?_ E
        simp only [setPrimResult]
        rw [map_key_set rds1 i _ (by simp [key]), hk1]
  | del sel z c t =>
    have ht := resolveTime_I64 s t now hnow hop
    simp only [plan]
    rcases deleteObjectsPlan_cases ph s sel z c t now with ⟨calls, e, h⟩ | ⟨_, _, h⟩
    · rw [h]; exact ⟨R, E⟩
    · rw [h]
      obtain ⟨d1, d2, d3, d4, d5, d6, d7, d8, d9, d10, d11, d12⟩ := hdrAfterDelete_doff s.h (s.rds.filter (hit ph sel))
      have hrds : ∀ x ∈ s.rds.map (fun d => if hit ph sel d then zeroDesc else d), x.Valid := by
        intro x hx
        obtain ⟨y, hy, rfl⟩ := List.mem_map.mp hx
        split
        · exact zeroDesc_valid
        · exact R.dv y hy
      have hends : ∀ x ∈ s.rds.map (fun d => if hit ph sel d then zeroDesc else d), x.used = true →
          x.off + x.size ≤ maxI64 := by
        intro x hx hu
        obtain ⟨y, hy, rfl⟩ := List.mem_map.mp hx
        by_cases hh : hit ph sel y = true
        · simp [hh, zeroDesc] at hu
        · simp only [hh, Bool.false_eq_true, ↓reduceIte] at hu ⊢
          exact E y hy hu
      have hlen : ((s.rds.filter (hit ph sel)).length : Int) ≤ (live s.rds).length := by
        exact_mod_cast filter_hit_le_live ph s.rds sel
      have hacct := W.acct
      have htot := R.hv.dtotal
      have hfree := R.hv.dfree
      have harch : (hdrAfterDelete s.h (s.rds.filter (hit ph sel))).arch.length = 3 := by
        rw [hdrAfterDelete_arch]
        split
        · rfl
        · exact R.hv.arch
      have hdf : I64 (s.h.dfree + (s.rds.filter (hit ph sel)).length) := by
        unfold I64 at *; omega
      refine ⟨⟨?_, ?_⟩, ?_⟩
      · unfold deleteResult deleteFinish
        cases c with
        | false =>
          simp only [Bool.false_eq_true, ↓reduceIte]
          exact ⟨by rw [d6]; exact R.hv.launch, by rw [d7]; exact R.hv.magic, by rw [d8]; exact R.hv.version, harch,
            by rw [d9]; exact R.hv.id, by rw [d10]; exact R.hv.ctime, ht, by rw [d12]; exact hdf, by rw [d4]; exact R.hv.dtotal,
            by rw [d1]; exact R.hv.doff, by rw [d2]; exact R.hv.dsize, by rw [d3]; exact R.hv.dataOff, by rw [d5]; exact R.hv.dataSize⟩
        | true =>
          simp only [↓reduceIte]
          exact ⟨by rw [d6]; exact R.hv.launch, by rw [d7]; exact R.hv.magic, by rw [d8]; exact R.hv.version, harch,
            by rw [d9]; exact R.hv.id, by rw [d10]; exact R.hv.ctime, ht, by rw [d12]; exact hdf, by rw [d4]; exact R.hv.dtotal,
            by rw [d1]; exact R.hv.doff, by rw [d2]; exact R.hv.dsize, by rw [d3]; exact R.hv.dataOff,
            calc_I64 _ _ (by simp only [d3]; exact hdo) hends⟩
      · unfold deleteResult deleteFinish
        cases c <;> exact hrds
      · unfold EndsOK deleteResult deleteFinish
        cases c <;> exact hends
  | add di t =>
    obtain ⟨hti, hdt, hlink, hot, harch, hend⟩ := hop
    have ht := resolveTime_I64 s t now hnow hti
    simp only [plan]
    rcases addObjectPlan_cases sha ph s di t now with ⟨calls, e, h⟩ | ⟨calls, d, arch, hi, hp, hw, h⟩
    · rw [h]; exact ⟨R, E⟩
    · simp only at h
      rw [h]
      obtain ⟨off, hn, _, _, hu, hid, hoff, hsz, hpad, hgid, hdtype, hlnk, hname, _, hct, hmt, huid, hgo, hex⟩ :=
        writeDataObjectAt_ok sha _ di _ _ d calls hw
      have hcalc := calculatedDataSize_nonneg s.h s.rds
      have hge := nextAligned_ge _ _ _ hn
      have hle := hend off hn
      have hi32 : (findFreeSlot s.rds : Int) < maxU32 :=
        add_ok_slot_lt sha ph s di t now (by rw [h])
      have hlive : ((live s.rds).length : Int) ≤ s.rds.length := by
        have : (live s.rds).length ≤ s.rds.length := by unfold live; exact List.length_filter_le _ _
        exact_mod_cast this
      have hacct := W.acct
      have htot := W.total
      have hdfree := R.hv.dfree
      have hdv : d.Valid := by
        refine ⟨by rw [hdtype]; exact hdt, ?_, by rw [hgid]; exact or_mask_U32 _, by rw [hlnk]; exact hlink,
          ?_, ?_, ?_, ?_, ?_, by rw [huid]; unfold I64; omega, by rw [hgo]; unfold I64; omega,
          by rw [hname]; simp, ?_⟩
        · rw [hid]; unfold U32 maxU32 at *; simp only at hi32 ⊢; omega
        · rw [hoff]; unfold I64 maxI64 at *; omega
        · rw [hsz]; unfold I64 maxI64 at *; omega
        · rw [hpad]; unfold I64 maxI64 at *; omega
        · rw [hct]; split <;> assumption
        · rw [hmt, hct]; split <;> assumption
        · cases hm : di.md.marshal sha di.content with
          | error e => rw [hm] at hex; exact hex.elim
          | ok ob =>
            rw [hm] at hex
            cases ob with
            | none => simp only at hex; rw [hex]; simp [zeroDesc]
            | some b => simp only at hex; rw [hex.1]; simp
      have harch3 : (arch.getD s.h.arch).length = 3 := by
        cases arch with
        | none => exact R.hv.arch
        | some a =>
          obtain ⟨fs, pt, hmd⟩ := primaryCheck_some ph s di.md a hp
          exact harch fs pt a hmd
      refine ⟨⟨?_, ?_⟩, ?_⟩
      · unfold commitObject
        exact ⟨R.hv.launch, R.hv.magic, R.hv.version, harch3, R.hv.id, R.hv.ctime, ht,
          by simp only; unfold I64 at *; omega, R.hv.dtotal, R.hv.doff, R.hv.dsize, R.hv.dataOff,
          by simp only; rw [hpad]; unfold I64 maxI64 at *; omega⟩
      · unfold commitObject
        exact valid_set _ _ _ R.dv hdv
      · unfold EndsOK commitObject
        intro x hx hux
        rcases List.mem_or_eq_of_mem_set hx with h1 | h1
        · exact E x h1 hux
        · rw [h1, hoff, hsz]; exact hle

/-- the same for a step (the store plays no part in `Ranges` / `EndsOK`) -/
theorem Ranges_step (s : Img) (W : WF s) (R : Ranges s) (E : EndsOK s) (op : Op) (now : Int)
    (hin : Op.InRange s op now) (hio : (step sha ph s op now).2 ≠ .err .io) :
    Ranges (step sha ph s op now).1 ∧ EndsOK (step sha ph s op now).1 := by
  by_cases hrl : op = .reload
  · subst hrl
    simp only [step, WF.load s W R]
    exact ⟨⟨R.hv, R.dv⟩, E⟩
  · obtain ⟨st', _, hs', _⟩ := step_store sha ph s op now hrl hio
    obtain ⟨r, e⟩ := Ranges_plan sha ph s W R E op now hin
    rw [hs']
    exact ⟨⟨r.hv, r.dv⟩, e⟩

/-- … hence along every history whose inputs are representable: `Ranges` holds of every state
    reached, starting from a well-formed handle that satisfies it -/
theorem Ranges_history (s : Img) (ops : List (Op × Int)) (W : WF s) (R : Ranges s) (E : EndsOK s)
    (hin : ∀ k op now, ops[k]? = some (op, now) → Op.InRange (runOps sha ph s (ops.take k)) op now)
    (hio : ∀ k op now, ops[k]? = some (op, now) →
      (step sha ph (runOps sha ph s (ops.take k)) op now).2 ≠ .err .io) :
    ∀ k, Ranges (runOps sha ph s (ops.take k)) := by
  induction ops generalizing s with
  | nil => intro k; simpa [runOps] using R
  | cons x rest ih =>
    obtain ⟨op, now⟩ := x
    intro k
    cases k with
    | zero => simpa [runOps] using R
    | succ k =>
      simp only [List.take_succ_cons, runOps]
      have hin0 : Op.InRange s op now := by simpa [runOps] using hin 0 op now (by simp)
      have hio0 : (step sha ph s op now).2 ≠ .err .io := by simpa [runOps] using hio 0 op now (by simp)
      obtain ⟨R', E'⟩ := Ranges_step sha ph s W R E op now hin0 hio0
      exact ih (step sha ph s op now).1 (WF_step sha ph s W R op now hio0) R' E'
        (fun j op' now' hj => by simpa [runOps] using hin (j + 1) op' now' (by simpa using hj))
        (fun j op' now' hj => by simpa [runOps] using hio (j + 1) op' now' (by simpa using hj)) k

end Sif
