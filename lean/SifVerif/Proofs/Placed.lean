/-
  Proofs/Placed.lean — the placement invariant is preserved by every operation.
-/
import SifVerif.Proofs.Place
namespace Sif

variable (sha : Bytes → Bytes) (ph : Bytes → Option Bytes)

/-- placement facts that depend on the table only through its keys, slot by slot -/
theorem getElem?_key (rds rds' : List RawDesc) (hk : rds'.map key = rds.map key) (a : Nat)
    (x' : RawDesc) (h : rds'[a]? = some x') : ∃ x, rds[a]? = some x ∧ key x = key x' := by
  have h1 : (rds'.map key)[a]? = some (key x') := by simp [h]
  rw [hk] at h1
  simp only [List.getElem?_map, Option.map_eq_some_iff] at h1
  obtain ⟨x, hx, hkx⟩ := h1
  exact ⟨x, hx, hkx⟩

/-- an operation that leaves keys, data offset and data size alone, and whose calls are safe for
    every live region, preserves placement -/
theorem Placed.of_keys (s s' : Img) (P : Placed s) (hk : s'.rds.map key = s.rds.map key)
    (h1 : s'.h.dataOff = s.h.dataOff) (h2 : s'.h.dataSize = s.h.dataSize)
    (hfile : ∀ (i : Nat) (d : RawDesc), s.rds[i]? = some d → d.used = true → 0 < d.size →
      d.off + d.size ≤ s'.st.buf.length) : Placed s' := by
  refine ⟨?_, ?_, ?_⟩
  · intro x' hx' hu'
    obtain ⟨a, ha, hax⟩ := List.getElem_of_mem hx'
    have hx'' : s'.rds[a]? = some x' := by rw [List.getElem?_eq_getElem ha, hax]
    obtain ⟨x, hx, hkx⟩ := getElem?_key s.rds s'.rds hk a x' hx''
    simp only [key, Prod.mk.injEq] at hkx
    have := P.inData x (List.mem_of_getElem? hx) (by rw [hkx.1]; exact hu')
    rw [h1, h2, ← hkx.2.2.2.1, ← hkx.2.2.2.2]; exact this
  · intro a b xa xb ha hb hab hua hub hsa hsb
    obtain ⟨ya, hya, hka⟩ := getElem?_key s.rds s'.rds hk a xa ha
    obtain ⟨yb, hyb, hkb⟩ := getElem?_key s.rds s'.rds hk b xb hb
    simp only [key, Prod.mk.injEq] at hka hkb
    have := P.disj a b ya yb hya hyb hab (by rw [hka.1]; exact hua) (by rw [hkb.1]; exact hub)
      (by rw [hka.2.2.2.2]; exact hsa) (by rw [hkb.2.2.2.2]; exact hsb)
    rw [hka.2.2.2.1, hka.2.2.2.2, hkb.2.2.2.1, hkb.2.2.2.2] at this
    exact this
  · intro x' hx' hu' hs'
    obtain ⟨a, ha, hax⟩ := List.getElem_of_mem hx'
    have hx'' : s'.rds[a]? = some x' := by rw [List.getElem?_eq_getElem ha, hax]
    obtain ⟨x, hx, hkx⟩ := getElem?_key s.rds s'.rds hk a x' hx''
    simp only [key, Prod.mk.injEq] at hkx
    have := hfile a x hx (by rw [hkx.1]; exact hu') (by rw [hkx.2.2.2.2]; exact hs')
    rw [← hkx.2.2.2.1, ← hkx.2.2.2.2]; exact this

theorem getElem?_set_cases {α} (l : List α) (i a : Nat) (x y : α) (h : (l.set i x)[a]? = some y) :
    (a = i ∧ y = x) ∨ (a ≠ i ∧ l[a]? = some y) := by
  by_cases hai : a = i
  · subst hai
    left
    refine ⟨rfl, ?_⟩
    have hlt : a < (l.set a x).length := by
      by_cases hc : a < (l.set a x).length
      · exact hc
      · rw [List.getElem?_eq_none (by omega)] at h; cases h
    rw [List.getElem?_eq_getElem hlt, List.getElem_set_self] at h
    exact (Option.some.inj h).symm
  · right
    refine ⟨hai, ?_⟩
    rw [List.getElem?_set_ne (by omega)] at h
    exact h

/-- **placement is an invariant** -/
theorem Placed_step (s : Img) (W : WF s) (P : Placed s) (R : Ranges s) (op : Op) (now : Int)
    (hio : (step sha ph s op now).2 ≠ .err .io) : Placed (step sha ph s op now).1 := by
  by_cases hrl : op = .reload
  · subst hrl
    simp only [step, WF.load s W R]
    exact ⟨P.inData, P.disj, P.inFile⟩
  obtain ⟨st', hcalls, hs', hres⟩ := step_store sha ph s op now hrl hio
  have hfile : ∀ (i : Nat) (d : RawDesc), s.rds[i]? = some d → d.used = true →
      ((plan sha ph s op now).2.2 = .ok → survives ph op d) → 0 < d.size →
      d.off + d.size ≤ st'.buf.length := by
    intro i d hd hu hsv hsz
    have := (step_frame sha ph s W P R op now i d hd hu hsv hio).2 hsz
    rw [hs'] at this; exact this
  obtain ⟨hrej, _⟩ := plan_shape sha ph s op now
  rw [hs']
  by_cases hok : (plan sha ph s op now).2.2 = .ok
  · -- accepted
    cases op with
    | reload => exact absurd rfl hrl
    | add di t =>
      simp only [plan] at *
      rcases addObjectPlan_cases sha ph s di t now with ⟨calls, e, h⟩ | ⟨calls, dn, arch, hi, hp, hw, h⟩
      · rw [h] at hok; cases hok
      · simp only at h
        rw [h] at hcalls hfile ⊢
        simp only at hcalls hfile ⊢
        obtain ⟨off, hn, _, hcs, hun, hidn, hoffn, hszn, hpad, _⟩ :=
          writeDataObjectAt_ok sha _ di _ _ dn calls hw
        obtain ⟨hfree, _⟩ := findFreeSlot_spec s.rds hi
        have hge := nextAligned_ge _ _ _ hn
        have hcalc := calculatedDataSize_nonneg s.h s.rds
        have h128 := W.doff
        have htab := W.tabEnd
        generalize hi_def : findFreeSlot s.rds = i at *
        have hri : s.rds[i]? = some (s.rds[i]'hi) := List.getElem?_eq_getElem hi
        have hriu : (s.rds[i]'hi).used = false := by simpa [List.getD, hi] using hfree
        refine ⟨?_, ?_, ?_⟩
        · intro x hx hxu
          simp only [commitObject] at hx ⊢
          rcases List.mem_or_eq_of_mem_set hx with hx | hx
          · have e1 := calculatedDataSize_ge s.h s.rds x hx hxu
            have e2 := (P.inData x hx hxu).1
            rw [hpad]; omega
          · subst hx; rw [hpad, hoffn, hszn]; omega
        · intro a b xa xb ha hb hab hua hub hsa hsb
          simp only [commitObject] at ha hb
          rcases getElem?_set_cases _ _ _ _ _ ha with ⟨ea, eax⟩ | ⟨nea, ha'⟩ <;>
          rcases getElem?_set_cases _ _ _ _ _ hb with ⟨eb, ebx⟩ | ⟨neb, hb'⟩
          · omega
          · subst eax
            have e1 := calculatedDataSize_ge s.h s.rds xb (List.mem_of_getElem? hb') hub
            right; rw [hoffn]; omega
          · subst ebx
            have e1 := calculatedDataSize_ge s.h s.rds xa (List.mem_of_getElem? ha') hua
            left; rw [hoffn]; omega
          · exact P.disj a b xa xb ha' hb' hab hua hub hsa hsb
        · intro x hx hxu hxs
          simp only [commitObject] at hx
          obtain ⟨a, ha, hax⟩ := List.getElem_of_mem hx
          have hxa : (s.rds.set i dn)[a]? = some x := by rw [List.getElem?_eq_getElem ha, hax]
          rcases getElem?_set_cases _ _ _ _ _ hxa with ⟨ea, eax⟩ | ⟨nea, ha'⟩
          · -- the new object: written, then the flush does not shrink or touch it
            subst eax
            rw [hcs] at hcalls
            have hne : di.content.isEmpty = false := by
              cases hc : di.content with
              | nil => rw [hszn, hc] at hxs; simp at hxs
              | cons => rfl
            simp only [hne, Bool.false_eq_true, ↓reduceIte, List.cons_append, List.nil_append,
              List.append_assoc] at hcalls
            simp only [Store.calls, Store.call, Store.seekStart, show ¬ off < 0 by omega,
              ↓reduceIte] at hcalls
            have hw2 : ({ s.st with pos := off.toNat } : Store).write di.content =
                { s.st with buf := writeAt s.st.buf off.toNat di.content,
                            pos := off.toNat + di.content.length } := by
              cases hbe : s.st.be <;> simp [Store.write, hbe, hne]
            rw [hw2] at hcalls
            have hlh : regLo x ≤ regHi x := by unfold regLo regHi; omega
            have hsafe : callsSafe (regLo x) (regHi x)
                { s.st with buf := writeAt s.st.buf off.toNat di.content,
                            pos := off.toNat + di.content.length }
                (flushCalls { commitObject s i x arch (calculatedDataSize s.h s.rds) with
                  h := { (commitObject s i x arch (calculatedDataSize s.h s.rds)).h with
                    mtime := resolveTime s t now } }) := by
              apply flush_safe
              · simpa [commitObject] using h128
              · simp only [commitObject, List.length_set]; unfold regLo; omega
            obtain ⟨f1, _⟩ := calls_frame (regLo x) (regHi x) hlh _ _ _
              (by simp only [writeAt_length]; unfold regHi; omega) hsafe hcalls
            have hnn : 0 ≤ x.off + x.size := by rw [hoffn, hszn]; omega
            unfold regHi at f1
            simp only at f1 ⊢
            omega
          · exact hfile a x ha' hxu (fun _ => trivial) hxs
    | del sel z c t =>
      simp only [plan] at *
      rcases deleteObjectsPlan_cases ph s sel z c t now with ⟨calls, e, h⟩ | ⟨hs1, hany, h⟩
      · rw [h] at hok; cases hok
      · rw [h] at hfile ⊢
        simp only at hfile ⊢
        have hh := hdrAfterDelete_doff s.h (s.rds.filter (hit ph sel))
        have hrds : (deleteResult ph s sel c (resolveTime s t now)).rds
            = s.rds.map (fun d => if hit ph sel d then zeroDesc else d) := by
          simp [deleteResult, deleteFinish]
        have hdo : (deleteResult ph s sel c (resolveTime s t now)).h.dataOff = s.h.dataOff := by
          cases c <;> simp [deleteResult, deleteFinish, hh]
        -- a live descriptor of the result is an un-hit live descriptor of `s`, in the same slot
        have hback : ∀ (a : Nat) (x : RawDesc), (deleteResult ph s sel c (resolveTime s t now)).rds[a]? = some x →
            x.used = true → s.rds[a]? = some x ∧ hit ph sel x = false := by
          intro a x hx hxu
          rw [hrds] at hx
          simp only [List.getElem?_map, Option.map_eq_some_iff] at hx
          obtain ⟨y, hy, hyx⟩ := hx
          by_cases hh2 : hit ph sel y = true
          · simp only [hh2, ↓reduceIte] at hyx; subst hyx; simp [zeroDesc] at hxu
          · simp only [hh2, Bool.false_eq_true, ↓reduceIte] at hyx; subst hyx
            exact ⟨hy, by simpa using hh2⟩
        refine ⟨?_, ?_, ?_⟩
        · intro x hx hxu
          obtain ⟨a, ha, hax⟩ := List.getElem_of_mem hx
          obtain ⟨hx0, _⟩ := hback a x (by rw [List.getElem?_eq_getElem ha, hax]) hxu
          have hxm := List.mem_of_getElem? hx0
          obtain ⟨i1, i2⟩ := P.inData x hxm hxu
          rw [hdo]
          refine ⟨i1, ?_⟩
          cases c with
          | false =>
            have : (deleteResult ph s sel false (resolveTime s t now)).h.dataSize = s.h.dataSize := by
              simp [deleteResult, deleteFinish, hh]
            rw [this]; exact i2
          | true =>
            have hds : (deleteResult ph s sel true (resolveTime s t now)).h.dataSize =
                calculatedDataSize
                  ({ hdrAfterDelete s.h (s.rds.filter (hit ph sel)) with mtime := resolveTime s t now })
                  (s.rds.map (fun d => if hit ph sel d then zeroDesc else d)) := by
              simp [deleteResult, deleteFinish]
            have hge := calculatedDataSize_ge
              ({ hdrAfterDelete s.h (s.rds.filter (hit ph sel)) with mtime := resolveTime s t now })
              (s.rds.map (fun d => if hit ph sel d then zeroDesc else d)) x (by rw [← hrds]; exact hx) hxu
            have e3 : ({ hdrAfterDelete s.h (s.rds.filter (hit ph sel)) with
                mtime := resolveTime s t now } : Hdr).dataOff = s.h.dataOff := hh.2.2.1
            rw [e3] at hge
            rw [hds]; exact hge
        · intro a b xa xb ha hb hab hua hub hsa hsb
          obtain ⟨ha0, _⟩ := hback a xa ha hua
          obtain ⟨hb0, _⟩ := hback b xb hb hub
          exact P.disj a b xa xb ha0 hb0 hab hua hub hsa hsb
        · intro x hx hxu hxs
          obtain ⟨a, ha, hax⟩ := List.getElem_of_mem hx
          obtain ⟨hx0, hnh⟩ := hback a x (by rw [List.getElem?_eq_getElem ha, hax]) hxu
          exact hfile a x hx0 hxu (fun _ => hnh) hxs
    | setPrim id t =>
      simp only [plan] at *
      rcases setPrimPartPlan_cases ph s id t now with ⟨r, h⟩ | ⟨k, rds1, hd, h⟩
      · rw [h] at hfile ⊢
        exact Placed.of_keys s _ P rfl rfl rfl (fun i d hd hu hsz => hfile i d hd hu (fun _ => trivial) hsz)
      · rw [h] at hfile ⊢
        have hk1 := demotePrimary_keys ph s.rds rds1 _ hd
        refine Placed.of_keys s _ P ?_ rfl rfl (fun i d hd hu hsz => hfile i d hd hu (fun _ => trivial) hsz)
        simp only [setPrimResult]
        rw [map_key_set rds1 k _ (by simp [key]), hk1]
    | setMeta id md t =>
      simp only [plan, setMetadataPlan] at *
      cases h1 : getDescriptorIdx ph s.rds [Sel.id id] with
      | error e => simp [h1] at hok
      | ok k =>
        simp only [h1] at hok hfile ⊢
        rcases setExtraPlan_cases sha s k md (resolveTime s t now) with ⟨e, h⟩ | ⟨d', hd', h⟩
        · rw [h] at hok; cases hok
        · simp only at h
          rw [h] at hfile ⊢
          refine Placed.of_keys s _ P ?_ rfl rfl (fun i d hd hu hsz => hfile i d hd hu (fun _ => trivial) hsz)
          exact map_key_set s.rds k _ (by
            have := setExtra_key sha [] md _ d' hd'
            simpa [key] using this)
    | setOCI id text t =>
      simp only [plan, setOCIBlobDigestPlan] at *
      cases h1 : getDescriptorIdx ph s.rds [Sel.id id] with
      | error e => simp [h1] at hok
      | ok k =>
        simp only [h1] at hok hfile ⊢
        split at hok
        · cases hok
        · rename_i h2
          simp only [h2, ↓reduceIte] at hfile ⊢
          rcases setExtraPlan_cases sha s k (.ociText text) (resolveTime s t now) with ⟨e, h⟩ | ⟨d', hd', h⟩
          · rw [h] at hok; cases hok
          · simp only at h
            rw [h] at hfile ⊢
            refine Placed.of_keys s _ P ?_ rfl rfl (fun i d hd hu hsz => hfile i d hd hu (fun _ => trivial) hsz)
            exact map_key_set s.rds k _ (by
              have := setExtra_key sha [] (.ociText text) _ d' hd'
              simpa [key] using this)
  · -- rejected: the handle is unchanged
    have hmem := hrej hok
    rw [hmem]
    refine Placed.of_keys s _ P rfl rfl rfl ?_
    intro i d hd hu hsz
    exact hfile i d hd hu (fun h => absurd h hok) hsz

end Sif
