/-
  Proofs/Sync.lean — the store always holds the encoding of the in-memory header and table
  ("Synced"), hence a fresh load of the current bytes reproduces the handle.
-/
import SifVerif.Proofs.Plan
import SifVerif.Proofs.Store
import SifVerif.Proofs.Load
namespace Sif

variable (sha : Bytes → Bytes) (ph : Bytes → Option Bytes)

/-- header at [0,128) and table at [doff, doff+585·n) hold the encodings of `h` and `rds` -/
structure SyncedAt (h : Hdr) (rds : List RawDesc) (buf : Bytes) : Prop where
  hlen : 128 ≤ buf.length
  hhdr : slice buf 0 128 = encHdr h
  tlen : rds ≠ [] → h.doff.toNat + 585 * rds.length ≤ buf.length
  htab : slice buf h.doff.toNat (585 * rds.length) = encTable rds

def Synced (s : Img) : Prop := SyncedAt s.h s.rds s.st.buf

theorem callsPrefix_of_calls (st st' : Store) (cs : List IOCall) (h : st.calls cs = some st') :
    st.callsPrefix cs = (st', true) := by
  induction cs generalizing st with
  | nil => simp [Store.calls] at h; simp [Store.callsPrefix, h]
  | cons c cs ih =>
    simp only [Store.calls] at h
    cases hc : st.call c with
    | none => simp [hc] at h
    | some s1 => simp only [hc] at h; simp [Store.callsPrefix, hc, ih s1 h]

theorem calls_of_callsPrefix (st : Store) (cs : List IOCall) (h : (st.callsPrefix cs).2 = true) :
    st.calls cs = some (st.callsPrefix cs).1 := by
  induction cs generalizing st with
  | nil => simp [Store.calls, Store.callsPrefix]
  | cons c cs ih =>
    cases hc : st.call c with
    | none => simp [Store.callsPrefix, hc] at h
    | some s1 =>
      simp only [Store.callsPrefix, hc] at h ⊢
      simp [Store.calls, hc, ih s1 h]

theorem calls_append (st : Store) (a b : List IOCall) :
    st.calls (a ++ b) = (st.calls a).bind (fun s => s.calls b) := by
  induction a generalizing st with
  | nil => simp [Store.calls]
  | cons c cs ih =>
    simp only [List.cons_append, Store.calls]
    cases st.call c with
    | none => simp
    | some s1 => simp [ih]

/-- rewriting table and header from memory re-establishes `Synced`, whatever the store held -/
theorem flush_synced (s' : Img) (st : Store) (hd : 128 ≤ s'.h.doff) :
    ∃ st', st.calls (flushCalls s') = some st' ∧ SyncedAt s'.h s'.rds st'.buf := by
  have h0 : ¬ s'.h.doff < 0 := by omega
  have hdn : 128 ≤ s'.h.doff.toNat := by omega
  simp only [flushCalls, writeDescriptorsCalls, writeHeaderCalls, List.cons_append, List.nil_append,
    Store.calls, Store.call, Store.seekStart, h0, ↓reduceIte, Int.toNat_zero, show ¬ (0 : Int) < 0 by omega]
  -- the table write
  by_cases hT : s'.rds = []
  · -- empty table: the file backend skips the empty write, the buffer zero-fills
    refine ⟨_, rfl, ?_⟩
    have hH : (encHdr s'.h).isEmpty = false := by
      cases h : encHdr s'.h with
      | nil => have := encHdr_length s'.h; simp [h] at this
      | cons => rfl
    cases hbe : st.be <;>
      simp only [Store.write, hbe, hT, encTable_nil, List.isEmpty_nil, ↓reduceIte, hH,
        Bool.false_eq_true] <;>
      exact ⟨by simp; omega, by simpa using slice_writeAt_same _ 0 (encHdr s'.h), by simp,
        by simp [slice]⟩
  · have hTne : (encTable s'.rds).isEmpty = false := by
      cases h : encTable s'.rds with
      | nil =>
        have := encTable_length s'.rds
        rw [h] at this
        cases hr : s'.rds with
        | nil => exact absurd hr hT
        | cons => simp [hr] at this
      | cons => rfl
    have hH : (encHdr s'.h).isEmpty = false := by
      cases h : encHdr s'.h with
      | nil => have := encHdr_length s'.h; simp [h] at this
      | cons => rfl
    refine ⟨_, rfl, ?_⟩
    cases hbe : st.be <;>
      simp only [Store.write, hbe, hTne, hH, Bool.false_eq_true, ↓reduceIte] <;>
      refine ⟨by simp; omega, by simpa using slice_writeAt_same _ 0 (encHdr s'.h), ?_, ?_⟩
    all_goals first
      | (intro _; simp; omega)
      | (rw [slice_writeAt_frame _ 0 (encHdr s'.h) _ _ (Or.inr (by simp; omega)) (by simp; omega)]
         have := slice_writeAt_same st.buf s'.h.doff.toNat (encTable s'.rds)
         simpa using this)

/-- a write wholly at or beyond `dataOff` leaves a synced header and table alone -/
theorem SyncedAt.write_beyond (h : Hdr) (rds : List RawDesc) (buf : Bytes) (S : SyncedAt h rds buf)
    (off : Nat) (p : Bytes) (h1 : 128 ≤ off) (h2 : h.doff.toNat + 585 * rds.length ≤ off) :
    SyncedAt h rds (writeAt buf off p) := by
  refine ⟨by simp; have := S.hlen; omega, ?_, ?_, ?_⟩
  · rw [slice_writeAt_frame _ _ _ _ _ (Or.inl (by omega)) (by have := S.hlen; omega)]; exact S.hhdr
  · intro hne; have := S.tlen hne; simp; omega
  · by_cases hne : rds = []
    · simp [hne, slice]
    · rw [slice_writeAt_frame _ _ _ _ _ (Or.inl (by omega)) (S.tlen hne)]; exact S.htab

/-- a synced, valid handle loads back as itself (with the minimum-ID cache recomputed) -/
theorem Synced.load (s : Img) (S : Synced s) (hv : s.h.Valid) (hm : s.h.magic = hdrMagic)
    (hver : s.h.version = curVersion) (ht : s.h.dtotal = s.rds.length) (hd : 0 ≤ s.h.doff)
    (hs : (585 * s.rds.length : Int) ≤ s.h.dsize)
    (dv : ∀ d ∈ s.rds, d.Valid) (dl : ∀ d ∈ s.rds, loadable d = true)
    (nov : s.h.doff + s.h.dsize ≤ maxI64) :
    loadContainer s.st =
      .ok { h := s.h, rds := s.rds, minIDs := populateMinIDs s.rds, st := s.st } :=
  loadContainer_ok s.st s.h s.rds
    ⟨hv, hm, hver, ht, hd, hs, S.hlen, S.hhdr, S.tlen, S.htab, dv, dl, nov⟩

end Sif
