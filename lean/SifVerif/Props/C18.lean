import SifVerif.Generated.Facts
import SifVerif.Model.Image
import SifVerif.Model.Integrity
import SifVerif.Model.Extra
/-!
# C18 — concurrent read-only use of one handle

Two layers.

* **Interleaving theorem** (`C18_interleaving`, `C18_all_schedules`): threads whose steps read a
  shared state `σ` but can only change their own private accumulator give, under *every*
  schedule, exactly the result each of them gives when run alone.  `C18_write_breaks` shows the
  hypothesis is needed: one step that stores to the shared state makes another thread's answer
  depend on the schedule.
* **Certificate** (`C18_no_shared_writes`): the premise — "the steps of the read-only API do not
  store to state shared between callers of one handle" — is a fact regenerated from the Go source
  on every run by `extract/effects.go`: the set of functions reachable from every exported
  non-mutating function of `pkg/sif` and `pkg/integrity` (calls, references, closures, interface
  dispatch by name), scanned for stores through `*FileImage`/`*header`/`*rawDescriptor`, stores to
  package-level variables, pointer-receiver calls on package-level variables, `&shared` handed to
  foreign code, and `Write/Seek/Truncate` on the backing store.  The list must be empty.

In the model every read-only query is a *function* of `(Img, Store)` (`getDescriptors`, `view`,
`Integrity.verify` …), which is exactly the shape the interleaving theorem needs
(`C18_model_queries`).  What the theorem cannot exhibit — the Go memory model, the `ReaderAt`
implementation the caller supplies, the race detector's view — is covered by the `-race` stress
campaign of the check and named in the trusted base.
-/
namespace Sif.C18
open Sif

/-- a reader thread: the read steps still to run and its private accumulator -/
structure Reader (σ α : Type) where
  todo : List (σ → α → α)
  acc : α

/-- the thread run alone to completion on shared state `s` -/
def Reader.solo (s : σ) (r : Reader σ α) : α := r.todo.foldl (fun a f => f s a) r.acc

/-- thread `r` performs its next step (no-op when finished) -/
def Reader.next (s : σ) (r : Reader σ α) : Reader σ α :=
  match r.todo with
  | [] => r
  | f :: t => { todo := t, acc := f s r.acc }

/-- one scheduling decision: thread `i` runs one step -/
def stepAt (s : σ) (rs : List (Reader σ α)) (i : Nat) : List (Reader σ α) :=
  rs.modify i (Reader.next s)

/-- a schedule is any list of thread indices -/
def run (s : σ) (rs : List (Reader σ α)) (sched : List Nat) : List (Reader σ α) :=
  sched.foldl (stepAt s) rs

theorem next_solo (s : σ) (r : Reader σ α) : (r.next s).solo s = r.solo s := by
  unfold Reader.next Reader.solo
  cases h : r.todo <;> simp [h]

theorem stepAt_solo (s : σ) (rs : List (Reader σ α)) (i : Nat) :
    (stepAt s rs i).map (Reader.solo s) = rs.map (Reader.solo s) := by
  unfold stepAt
  induction rs generalizing i with
  | nil => simp
  | cons r rs ih =>
    cases i with
    | zero => simp [List.modify_zero_cons, next_solo]
    | succ i => simp [List.modify_succ_cons, ih]

/-- **C18** (every schedule): the value each thread is heading for — its run-alone result — is
    the same after any interleaving of steps as before it. -/
theorem C18_all_schedules (s : σ) (rs : List (Reader σ α)) (sched : List Nat) :
    (run s rs sched).map (Reader.solo s) = rs.map (Reader.solo s) := by
  unfold run
  induction sched generalizing rs with
  | nil => rfl
  | cons i sched ih => rw [List.foldl_cons, ih, stepAt_solo]

theorem run_length (s : σ) (rs : List (Reader σ α)) (sched : List Nat) : (run s rs sched).length = rs.length := by
  unfold run
  induction sched generalizing rs with
  | nil => rfl
  | cons i sched ih => rw [List.foldl_cons, ih]; simp [stepAt]

/-- **C18**: under any schedule, a thread that has finished holds exactly the answer it computes
    when run alone on the same handle. -/
theorem C18_interleaving (s : σ) (rs : List (Reader σ α)) (sched : List Nat) (i : Nat) (r r0 : Reader σ α)
    (h0 : rs[i]? = some r0) (h : (run s rs sched)[i]? = some r) (hfin : r.todo = []) :
    r.acc = r0.solo s := by
  have hm := congrArg (fun l => l[i]?) (C18_all_schedules s rs sched)
  simp only [List.getElem?_map, h, h0, Option.map_some] at hm
  have : r.solo s = r.acc := by simp [Reader.solo, hfin]
  rw [← this]; exact Option.some.inj hm

/-! ### the hypothesis is needed -/

/-- threads whose steps may also store to the shared state -/
structure Writer (σ α : Type) where
  todo : List (σ → α → σ × α)
  acc : α

def wstep (st : σ × List (Writer σ α)) (i : Nat) : σ × List (Writer σ α) :=
  match st.2[i]? with
  | some w =>
    (match w.todo with
     | [] => st
     | f :: t => let (s', a') := f st.1 w.acc; (s', st.2.set i { todo := t, acc := a' }))
  | none => st

/-- a lazily built cache (the shape of a "build the map on first use" change): the first step
    stores, a second thread's read between the two steps sees the half-built value. -/
theorem C18_write_breaks :
    let lazy : Writer Nat Nat := { todo := [fun _ a => (0, a), fun _ a => (7, a)], acc := 0 }
    let reader : Writer Nat Nat := { todo := [fun s _ => (s, s)], acc := 0 }
    let alone := ([1].foldl wstep (7, [lazy, reader])).2.map (·.acc)
    let mixed := ([0, 1, 0].foldl wstep (7, [lazy, reader])).2.map (·.acc)
    alone = [0, 7] ∧ mixed = [0, 0] := by decide

/-! ### the model's queries have the required shape -/

/-- a read-only query of the model: any function of the loaded image and the backing store -/
abbrev Query (β : Type) := Img × Store → β

/-- running a query as a thread step: the answer is appended to the thread's private log -/
def ask (q : Query β) : (Img × Store) → List β → List β := fun s log => log ++ [q s]

theorem ask_foldl (s : Img × Store) (l : List (Query β)) (acc : List β) :
    (l.map ask).foldl (fun a f => f s a) acc = acc ++ l.map (fun q => q s) := by
  induction l generalizing acc with
  | nil => simp
  | cons q l ih => simp [ih, ask]

/-- **C18 for the model**: any number of threads issuing any sequences of model queries
    (`getDescriptors`, `view`, `Integrity.verify`, … — every one is a `Query`) against one handle
    obtain, under every schedule, the logs they obtain alone. -/
theorem C18_model_queries (s : Img × Store) (qs : List (List (Query β))) (sched : List Nat) :
    (run s (qs.map fun l => { todo := l.map ask, acc := [] }) sched).map (Reader.solo s) =
      qs.map (fun l => l.map (fun q => q s)) := by
  rw [C18_all_schedules]
  simp only [List.map_map]
  apply List.map_congr_left
  intro l _
  simp only [Function.comp, Reader.solo]
  simpa using ask_foldl s l []

/-- the model's descriptor listing, object view and default verification are such queries -/
example : Query (Except Err (List RawDesc)) := fun s => getDescriptors parseHashV1 s.1 []
example : Query View := fun s => view s.1
example (o : VerifyOpts) : Query (Except IErr (List Task)) := fun s => newVerifier parseHashV1 s.1 o

/-! ### certificate regenerated from the Go source -/

/-- no function reachable from the read-only API stores to state shared by users of one handle -/
theorem C18_no_shared_writes : Gen.sharedWrites = [] := by decide

/-- on every read-only path the backing store (the `io.ReaderAt`/`ReadWriter` field of a
    `Descriptor`/`FileImage`) is only ever the receiver of `ReadAt`, the source of
    `io.NewSectionReader`, or copied into a `Descriptor`: no type assertion to a wider interface,
    no `Seek`/`Read`/`Write`, no hand-off to other code — so no reader moves the store's shared
    position (regenerated from the source on every run) -/
theorem C18_store_only_positioned_reads : Gen.storeUses = [] := by decide

/-- … and that rule is exercised: the two places the store is legitimately used are seen -/
theorem C18_store_uses_seen :
    Gen.storePositionedReads.contains ("sif.Descriptor.GetReader", "d.r") = true ∧
    Gen.storePositionedReads.contains ("sif.FileImage.descriptorFromRaw", "f.rw") = true := by decide

/-- the analysis is not vacuous: it starts from the read-only API and reaches the helpers every
    query goes through, including the integrity stream and verification paths -/
theorem C18_entries_cover :
    (["sif.FileImage.GetDescriptors", "sif.FileImage.GetDescriptor", "sif.FileImage.WithDescriptors",
      "sif.FileImage.GetHeaderIntegrityReader", "sif.Descriptor.GetData", "sif.Descriptor.GetReader",
      "sif.Descriptor.GetIntegrityReader", "sif.Descriptor.GetMetadata", "integrity.NewVerifier",
      "integrity.Verifier.Verify", "integrity.Verifier.AnySignedBy", "integrity.Verifier.AllSignedBy"].all
        (Gen.readOnlyEntries.contains ·)) = true ∧
    (["sif.FileImage.descriptorFromRaw", "sif.FileImage.withDescriptors", "sif.FileImage.getDescriptor",
      "sif.header.GetIntegrityReader", "integrity.getTasks", "integrity.getGroupObjects",
      "integrity.digest.matches", "integrity.groupVerifier.verifySignature",
      "integrity.legacyGroupVerifier.verifySignature", "integrity.legacyObjectVerifier.verifySignature",
      "integrity.imageMetadata.matches", "integrity.clearsignDecoder.verifyMessage", "integrity.dsseDecoder.verifyMessage"].all (Gen.readOnlyReach.contains ·)) = true ∧
    (["sif.FileImage.AddObject", "sif.FileImage.DeleteObjects", "sif.FileImage.writeDescriptors", "sif.FileImage.populateMinIDs"].any
      (Gen.readOnlyReach.contains ·)) = false := by decide

end Sif.C18
