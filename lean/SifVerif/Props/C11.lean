/-
  Props/C11.lean — Files conform to the SIF v1 layout in both directions.
  Property theorems only (helpers: Proofs/Bytes.lean, Proofs/Layout.lean, Proofs/Load.lean).
-/
import SifVerif.Proofs.Load
import SifVerif.Proofs.LoadRanges
namespace Sif.C11

/-- the header is 128 bytes and the descriptor 585 bytes, whatever the field values -/
theorem C11_sizes (h : Hdr) (d : RawDesc) : (encHdr h).length = 128 ∧ (encDesc d).length = 585 :=
  ⟨encHdr_length h, encDesc_length d⟩

/-- every header field sits at its fixed SIF v1 offset, little-endian -/
theorem C11_hdr_offsets (h : Hdr) :
    slice (encHdr h) 0 32 = pad 32 h.launch ∧ slice (encHdr h) 32 10 = pad 10 h.magic ∧
    slice (encHdr h) 42 3 = pad 3 h.version ∧ slice (encHdr h) 45 3 = pad 3 h.arch ∧
    slice (encHdr h) 48 16 = pad 16 h.id ∧
    slice (encHdr h) 64 8 = encS 8 h.ctime ∧ slice (encHdr h) 72 8 = encS 8 h.mtime ∧
    slice (encHdr h) 80 8 = encS 8 h.dfree ∧ slice (encHdr h) 88 8 = encS 8 h.dtotal ∧
    slice (encHdr h) 96 8 = encS 8 h.doff ∧ slice (encHdr h) 104 8 = encS 8 h.dsize ∧
    slice (encHdr h) 112 8 = encS 8 h.dataOff ∧ slice (encHdr h) 120 8 = encS 8 h.dataSize := by
  simp only [encHdr, List.append_assoc]
  simp [slice_skip, slice_take, slice_exact]

/-- every descriptor field sits at its fixed SIF v1 offset -/
theorem C11_desc_offsets (d : RawDesc) :
    slice (encDesc d) 0 4 = encS 4 d.dtype ∧ slice (encDesc d) 4 1 = encBool d.used ∧
    slice (encDesc d) 5 4 = encU 4 d.id ∧ slice (encDesc d) 9 4 = encU 4 d.gid ∧
    slice (encDesc d) 13 4 = encU 4 d.link ∧ slice (encDesc d) 17 8 = encS 8 d.off ∧
    slice (encDesc d) 25 8 = encS 8 d.size ∧ slice (encDesc d) 33 8 = encS 8 d.sizePad ∧
    slice (encDesc d) 41 8 = encS 8 d.ctime ∧ slice (encDesc d) 49 8 = encS 8 d.mtime ∧
    slice (encDesc d) 57 8 = encS 8 d.uid ∧ slice (encDesc d) 65 8 = encS 8 d.gidOwner ∧
    slice (encDesc d) 73 128 = pad 128 d.name ∧ slice (encDesc d) 201 384 = pad 384 d.extra := by
  simp only [encDesc, List.append_assoc]
  simp [slice_skip, slice_take, slice_exact]

/-- an independent decoder recovers exactly the header and descriptor values that were written -/
theorem C11_roundtrip (h : Hdr) (d : RawDesc) (hv : h.Valid) (dv : d.Valid) :
    decHdr (encHdr h) = h ∧ decDesc (encDesc d) = d :=
  ⟨decHdr_encHdr h hv, decDesc_encDesc d dv⟩

/-- the fixed-width integer codecs are inverse on the whole representable range -/
theorem C11_int_codecs :
    (∀ x, I64 x → decS 8 (encS 8 x) = x) ∧ (∀ x, I32 x → decS 4 (encS 4 x) = x) ∧
    (∀ n, U32 n → decU (encU 4 n) = n) ∧
    (∀ b : Bytes, b.length = 8 → encS 8 (decS 8 b) = b) ∧
    (∀ b : Bytes, b.length = 4 → encS 4 (decS 4 b) = b) ∧
    (∀ b : Bytes, b.length = 4 → encU 4 (decU b) = b) :=
  ⟨decS8_encS8, decS4_encS4, decU4_encU4, encS_decS 8, encS_decS 4, encU_decU 4⟩

/-- Any image laid out the SIF v1 way by an independent encoder — arbitrary valid field values,
    free slots anywhere, any ID numbering, any placement, a gap after the table — is loaded with
    exactly that header and those descriptors. -/
theorem C11_load_encoded (st : Store) (h : Hdr) (rds : List RawDesc) (L : Loadable h rds st.buf) :
    loadContainer st = .ok { h := h, rds := rds, minIDs := populateMinIDs rds, st := st } :=
  loadContainer_ok st h rds L

/-- the canonical independent encoder: header, zero gap, table, zero gap, data section -/
def encodeImage (h : Hdr) (rds : List RawDesc) (data : Bytes) : Bytes :=
  pad h.doff.toNat (encHdr h) ++ pad (h.dataOff.toNat - h.doff.toNat) (encTable rds) ++ data

theorem C11_encodeImage_loadable (h : Hdr) (rds : List RawDesc) (data : Bytes)
    (hv : h.Valid) (hm : h.magic = hdrMagic) (hver : h.version = curVersion)
    (ht : h.dtotal = rds.length) (hd : 128 ≤ h.doff) (hs : (585 * rds.length : Int) ≤ h.dsize)
    (ho : h.doff + 585 * rds.length ≤ h.dataOff) (hds : h.doff + h.dsize ≤ h.dataOff)
    (dv : ∀ d ∈ rds, d.Valid) (dl : ∀ d ∈ rds, loadable d = true) :
    Loadable h rds (encodeImage h rds data) := by
  have hdn : 128 ≤ h.doff.toNat := by omega
  have hgap : 585 * rds.length ≤ h.dataOff.toNat - h.doff.toNat := by omega
  have hp1 : pad h.doff.toNat (encHdr h) = encHdr h ++ zeros (h.doff.toNat - 128) := by
    simp [pad, List.take_of_length_le, hdn]
  have hp2 : pad (h.dataOff.toNat - h.doff.toNat) (encTable rds)
      = encTable rds ++ zeros (h.dataOff.toNat - h.doff.toNat - 585 * rds.length) := by
    simp [pad, List.take_of_length_le, hgap]
  refine ⟨hv, hm, hver, ht, by omega, hs, ?_, ?_, ?_, ?_, dv, dl, by
    have := hv.dataOff; unfold I64 at this; unfold maxI64; omega⟩
  · simp [encodeImage]; omega
  · simp only [encodeImage, hp1, List.append_assoc]
    exact slice_take _ _ 128 (by simp)
  · intro _; simp [encodeImage]; omega
  · simp only [encodeImage, List.append_assoc]
    rw [slice_skip _ _ _ _ (by simp), hp2]
    simp only [pad_length, Nat.sub_self, List.append_assoc]
    exact slice_take _ _ _ (by simp)

/-- a file whose magic or version differs is refused -/
theorem C11_refuse (st : Store) (s : Img) (h : loadContainer st = .ok s) :
    s.h.magic = hdrMagic ∧ s.h.version = curVersion := by
  unfold loadContainer at h
  split at h
  · cases h
  · dsimp only at h
    split at h
    · cases h
    · split at h
      · cases h
      · split at h
        · cases h
        · split at h
          · cases h
          · split at h
            · cases h
            · rename_i hm hver _ _ _ _ _
              cases h
              simp at hm hver
              exact ⟨hm, hver⟩

/-- group / link encodings: low 28 bits carry the ID, the high nibble flags a group link -/
theorem C11_group_link (g : Nat) (hg : 0 < g) (hlt : g < 268435456) :
    (∀ d : RawDesc, d.gid = g % u32Mod ||| descrGroupMask → d.group = g) ∧
    (∀ d : RawDesc, d.link = (g % u32Mod) % 268435456 + descrGroupMask →
        d.linkedID = g ∧ d.linkIsGroup = true) ∧
    (∀ d : RawDesc, d.link = g → d.linkedID = g ∧ d.linkIsGroup = false) := by
  have hu : g % u32Mod = g := Nat.mod_eq_of_lt (by unfold u32Mod; omega)
  have hu' : g % 4294967296 = g := Nat.mod_eq_of_lt (by omega)
  refine ⟨?_, ?_, ?_⟩
  · intro d hd
    have hor : g ||| 4026531840 = g + 4026531840 := by
      have h15 : (4026531840 : Nat) = 15 <<< 28 := by decide
      rw [Nat.or_comm, h15, ← Nat.shiftLeft_add_eq_or_of_lt (by omega) 15]
      omega
    rw [hu] at hd
    simp only [RawDesc.group, low28, hd, descrGroupMask, hor]
    omega
  · intro d hd
    rw [hu] at hd
    simp only [RawDesc.linkedID, RawDesc.linkIsGroup, low28, hd, descrGroupMask, u32Mod]
    constructor
    · omega
    · have h1 : (g % 268435456 + 4026531840) % 4294967296 / 268435456 = 15 := by omega
      simp [h1]
  · intro d hd
    simp only [RawDesc.linkedID, RawDesc.linkIsGroup, low28, hd, u32Mod]
    constructor
    · omega
    · have : g % 4294967296 / 268435456 = 0 := by omega
      simp [this]

/-! ### non-vacuity: a concrete image satisfies the hypotheses and loads -/
def exHdr : Hdr :=
  { launch := pad 32 [35, 33], magic := hdrMagic, version := curVersion, arch := archUnknown,
    id := zeros 16, ctime := 5, mtime := 6, dfree := 1, dtotal := 2, doff := 4096, dsize := 1170,
    dataOff := 5266, dataSize := 3 }
def exDesc : RawDesc :=
  { zeroDesc with dtype := dtGeneric, used := true, id := 2, gid := 0xf0000001, off := 5266, size := 3 }

example : exHdr.Valid := by constructor <;> decide +kernel
example : exDesc.Valid ∧ zeroDesc.Valid := by constructor <;> constructor <;> decide +kernel
example : loadable exDesc = true ∧ loadable zeroDesc = true := by decide

/-- direction "someone else's file → this library": every field of an accepted image was decoded from
    its fixed-width slot, so the handle satisfies `Ranges` — the hypothesis under which the encoder
    writes the same bytes back (`C11_roundtrip`) -/
theorem C11_loaded_ranges (st : Store) (s : Img) (h : loadContainer st = .ok s) : Ranges s :=
  loadContainer_ranges st s h

end Sif.C11
