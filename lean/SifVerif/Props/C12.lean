/-
  Props/C12.lean — Deterministic options give bit-for-bit reproducible images.
  The clock reading and the random UUID are explicit parameters of the model (`now`, `rnd`), so
  reproducibility is a non-interference statement.
-/
import SifVerif.Proofs.CreateWF
import SifVerif.Proofs.Plan
import SifVerif.Props.C01
namespace Sif.C12

variable (sha : Bytes → Bytes) (ph : Bytes → Option Bytes)

def topt : Op → Option TOpt
  | .add _ t => some t
  | .del _ _ _ t => some t
  | .setPrim _ t => some t
  | .setMeta _ _ t => some t
  | .setOCI _ _ t => some t
  | .reload => none

/-- the operation does not consult the clock: it carries the deterministic option or an explicit
    time, or the image it is applied to is already deterministic -/
def clockFree (s : Img) (op : Op) : Prop :=
  match topt op with
  | none => True
  | some .det => True
  | some (.at _) => True
  | some .dflt => s.isDeterministic = true

theorem resolveTime_clockFree (s : Img) (op : Op) (t : TOpt) (ht : topt op = some t)
    (h : clockFree s op) (n1 n2 : Int) : resolveTime s t n1 = resolveTime s t n2 := by
  unfold clockFree at h
  rw [ht] at h
  cases t <;> simp_all [resolveTime]

/-- **non-interference, one step**: the whole outcome — handle, bytes, result — of a clock-free
    operation is the same whatever the clock reads -/
theorem C12_step (s : Img) (op : Op) (h : clockFree s op) (n1 n2 : Int) :
    step sha ph s op n1 = step sha ph s op n2 := by
  cases op with
  | reload => rfl
  | add di t =>
    have := resolveTime_clockFree s (.add di t) t rfl h n1 n2
    simp only [step, plan, addObjectPlan, this]
  | del sel z c t =>
    have := resolveTime_clockFree s (.del sel z c t) t rfl h n1 n2
    simp only [step, plan, deleteObjectsPlan, this]
  | setPrim id t =>
    have := resolveTime_clockFree s (.setPrim id t) t rfl h n1 n2
    simp only [step, plan, setPrimPartPlan, this]
  | setMeta id md t =>
    have := resolveTime_clockFree s (.setMeta id md t) t rfl h n1 n2
    simp only [step, plan, setMetadataPlan, this]
  | setOCI id text t =>
    have := resolveTime_clockFree s (.setOCI id text t) t rfl h n1 n2
    simp only [step, plan, setOCIBlobDigestPlan, this]

/-- a history run against a clock (one reading per operation) -/
def runClock (s : Img) : List Op → List Int → Img
  | [], _ => s
  | op :: ops, [] => runClock (step sha ph s op 0).1 ops []
  | op :: ops, n :: ns => runClock (step sha ph s op n).1 ops ns

/-- every operation of the history is clock-free at the state it is applied to -/
def ClockFreeHist (s : Img) : List Op → List Int → Prop
  | [], _ => True
  | op :: ops, [] => clockFree s op ∧ ClockFreeHist (step sha ph s op 0).1 ops []
  | op :: ops, n :: ns => clockFree s op ∧ ClockFreeHist (step sha ph s op n).1 ops ns

/-- **non-interference, whole histories**: repeating a clock-free history at another wall-clock
    time yields the same handle and a byte-identical file -/
theorem C12_noninterference (s : Img) (ops : List Op) (c1 c2 : List Int)
    (h : ClockFreeHist sha ph s ops c1) :
    runClock sha ph s ops c1 = runClock sha ph s ops c2 ∧
    (runClock sha ph s ops c1).st.buf = (runClock sha ph s ops c2).st.buf := by
  suffices hh : runClock sha ph s ops c1 = runClock sha ph s ops c2 from ⟨hh, by rw [hh]⟩
  induction ops generalizing s c1 c2 with
  | nil => cases c1 <;> cases c2 <;> rfl
  | cons op ops ih =>
    cases c1 with
    | nil =>
      obtain ⟨h1, h2⟩ := h
      cases c2 with
      | nil => rfl
      | cons m ms =>
        simp only [runClock]
        rw [C12_step sha ph s op h1 m 0]
        exact ih _ [] ms h2
    | cons n ns =>
      obtain ⟨h1, h2⟩ := h
      cases c2 with
      | nil =>
        simp only [runClock]
        rw [← C12_step sha ph s op h1 n 0]
        exact ih _ ns [] h2
      | cons m ms =>
        simp only [runClock]
        rw [← C12_step sha ph s op h1 n m]
        exact ih _ ns ms h2

/-- creation: with the deterministic option, or an explicit ID and an explicit time, the created
    image does not depend on the clock or on the random source -/
theorem C12_create (be : Backend) (opts : List CreateOpt) (n1 n2 : Int) (r1 r2 : Bytes)
    (h : ∀ co1 co2 : CreateOpts, co1.launch = co2.launch → co1.capacity = co2.capacity →
        co1.dis = co2.dis → co1.doff = co2.doff →
        (match opts.foldlM (fun co o => o.apply co) co1, opts.foldlM (fun co o => o.apply co) co2 with
         | .ok a, .ok b => a.id = b.id ∧ a.t = b.t ∧ a.launch = b.launch ∧ a.capacity = b.capacity ∧
                           a.dis = b.dis ∧ a.doff = b.doff
         | .error e, .error e' => e = e'
         | _, _ => False)) :
    createContainer sha ph be opts n1 r1 = createContainer sha ph be opts n2 r2 := by
  unfold createContainer
  have := h { launch := zeros 32, id := r1, t := n1 } { launch := zeros 32, id := r2, t := n2 }
    rfl rfl rfl rfl
  cases h1 : opts.foldlM (fun co o => o.apply co) ({ launch := zeros 32, id := r1, t := n1 } : CreateOpts) with
  | error e =>
    cases h2 : opts.foldlM (fun co o => o.apply co) ({ launch := zeros 32, id := r2, t := n2 } : CreateOpts) with
    | error e' => simp only [h1, h2] at this; subst this; dsimp only; rw [h1, h2]
    | ok b => simp [h1, h2] at this
  | ok a =>
    cases h2 : opts.foldlM (fun co o => o.apply co) ({ launch := zeros 32, id := r2, t := n2 } : CreateOpts) with
    | error e' => simp [h1, h2] at this
    | ok b =>
      simp only [h1, h2] at this
      obtain ⟨e1, e2, e3, e4, e5, e6⟩ := this
      have hab : a = b := by cases a; cases b; simp_all
      dsimp only; rw [h1, h2, hab]

/-- the deterministic option erases both sources: whatever came before it in the option list -/
theorem C12_create_det_option (co : CreateOpts) :
    (CreateOpt.deterministic.apply co).map (fun c => (c.id, c.t)) = .ok (nilUUID, zeroTime) := by
  simp [CreateOpt.apply, Except.map]

/-- zero fields: an object added with no explicit object time under a zero operation time gets
    the zero time in both of its time fields -/
theorem C12_zero_fields_add (offU : Int) (di : DI) (d0 d : RawDesc) (calls : List IOCall)
    (hdi : di.objTime = zeroTime)
    (h : writeDataObjectAt sha offU di zeroTime d0 = (calls, .ok d)) :
    d.ctime = zeroTime ∧ d.mtime = zeroTime := by
  obtain ⟨off, _, _, _, _, _, _, _, _, _, _, _, _, _, hc, hm, _⟩ := writeDataObjectAt_ok sha offU di _ d0 d calls h
  rw [hm, hc, hdi]; simp

/-- zero fields: in a deterministic image every default-option or deterministic-option operation
    leaves the header deterministic (nil ID, zero creation and modification time) -/
theorem C12_stays_deterministic (s : Img) (op : Op) (now : Int) (hd : s.isDeterministic = true)
    (hop : match topt op with | some (.at _) => False | _ => True)
    (hok : (plan sha ph s op now).2.2 = .ok) :
    (plan sha ph s op now).2.1.isDeterministic = true := by
  have hr : ∀ t, (t = TOpt.dflt ∨ t = TOpt.det) → resolveTime s t now = zeroTime := by
    intro t ht; rcases ht with h | h <;> simp [h, resolveTime, hd]
  have hdet : s.h.id = nilUUID ∧ s.h.ctime = zeroTime ∧ s.h.mtime = zeroTime := by
    have : (s.h.id = nilUUID ∧ s.h.ctime = zeroTime) ∧ s.h.mtime = zeroTime := by
      simpa [Img.isDeterministic] using hd
    exact ⟨this.1.1, this.1.2, this.2⟩
  cases op with
  | reload => exact hd
  | add di t =>
    have ht : t = .dflt ∨ t = .det := by cases t <;> simp_all [topt]
    simp only [plan] at hok ⊢
    rcases addObjectPlan_cases sha ph s di t now with ⟨calls, e, h⟩ | ⟨calls, d, arch, _, _, _, h⟩
    · rw [h] at hok; cases hok
    · simp only at h; rw [h]
      simp [Img.isDeterministic, commitObject, hdet, hr t ht]
  | del sel z c t =>
    have ht : t = .dflt ∨ t = .det := by cases t <;> simp_all [topt]
    simp only [plan] at hok ⊢
    rcases deleteObjectsPlan_cases ph s sel z c t now with ⟨calls, e, h⟩ | ⟨_, _, h⟩
    · rw [h] at hok; cases hok
    · rw [h]
      have hh := hdrAfterDelete_doff s.h (s.rds.filter (hit ph sel))
      cases c <;> simp [Img.isDeterministic, deleteResult, deleteFinish, hh, hdet, hr t ht]
  | setPrim id t =>
    have ht : t = .dflt ∨ t = .det := by cases t <;> simp_all [topt]
    simp only [plan] at hok ⊢
    rcases setPrimPartPlan_cases ph s id t now with ⟨r, h⟩ | ⟨k, rds1, _, h⟩
    · rw [h]; exact hd
    · rw [h]; simp [Img.isDeterministic, setPrimResult, hdet, hr t ht]
  | setMeta id md t =>
    have ht : t = .dflt ∨ t = .det := by cases t <;> simp_all [topt]
    simp only [plan, setMetadataPlan] at hok ⊢
    cases h1 : getDescriptorIdx ph s.rds [Sel.id id] with
    | error e => simp [h1] at hok
    | ok k =>
      simp only [h1] at hok ⊢
      rcases setExtraPlan_cases sha s k md (resolveTime s t now) with ⟨e, h⟩ | ⟨d', _, h⟩
      · rw [h] at hok; cases hok
      · simp only at h; rw [h]; simp [Img.isDeterministic, hdet, hr t ht]
  | setOCI id text t =>
    have ht : t = .dflt ∨ t = .det := by cases t <;> simp_all [topt]
    simp only [plan, setOCIBlobDigestPlan] at hok ⊢
    cases h1 : getDescriptorIdx ph s.rds [Sel.id id] with
    | error e => simp [h1] at hok
    | ok k =>
      simp only [h1] at hok ⊢
      split at hok
      · cases hok
      · rename_i h2
        rcases setExtraPlan_cases sha s k (.ociText text) (resolveTime s t now) with ⟨e, h⟩ | ⟨d', _, h⟩
        · rw [h] at hok; cases hok
        · simp only at h
          simp only [h2, Bool.false_eq_true, ↓reduceIte]
          rw [h]; simp [Img.isDeterministic, hdet, hr t ht]

/-- the operation carries the default or the deterministic option (no explicit time, not a reload) -/
def plainOpt (op : Op) : Prop := topt op = some .dflt ∨ topt op = some .det

/-- a deterministic image stays deterministic under every such operation — accepted, rejected, or
    cut short by the store -/
theorem C12_step_deterministic (s : Img) (op : Op) (now : Int) (hd : s.isDeterministic = true)
    (hop : plainOpt op) : (step sha ph s op now).1.isDeterministic = true := by
  have hnr : op ≠ .reload := by
    intro h; subst h; rcases hop with h | h <;> simp [topt] at h
  have hstep : (step sha ph s op now).1.h = (plan sha ph s op now).2.1.h := by
    cases op with
    | reload => exact absurd rfl hnr
    | _ =>
      simp only [step, runPlan]
      split <;> rfl
  have hkey : (plan sha ph s op now).2.1.isDeterministic = true := by
    by_cases hok : (plan sha ph s op now).2.2 = .ok
    · apply C12_stays_deterministic sha ph s op now hd _ hok
      rcases hop with h | h <;> rw [h] <;> trivial
    · rw [(plan_shape sha ph s op now).1 hok]; exact hd
  unfold Img.isDeterministic at hkey ⊢
  rw [hstep]; exact hkey

/-- **a deterministic image and default/deterministic options: reproducible with no hypothesis on
    any state**.  From an image with nil ID and zero times (what `OptCreateDeterministic` makes:
    `C12_create_det_option`), any history of operations none of which names an explicit time gives
    the same handle and byte-identical contents whatever the clock reads at each step, and the
    image is deterministic at the end. -/
theorem C12_deterministic_history (s : Img) (ops : List Op) (c1 c2 : List Int)
    (hd : s.isDeterministic = true) (hops : ∀ op ∈ ops, plainOpt op) :
    runClock sha ph s ops c1 = runClock sha ph s ops c2 ∧
    (runClock sha ph s ops c1).st.buf = (runClock sha ph s ops c2).st.buf ∧
    (runClock sha ph s ops c1).isDeterministic = true := by
  have hcf : ∀ (s : Img) (ops : List Op) (c : List Int), s.isDeterministic = true →
      (∀ op ∈ ops, plainOpt op) → ClockFreeHist sha ph s ops c ∧ (runClock sha ph s ops c).isDeterministic = true := by
    intro s ops
    induction ops generalizing s with
    | nil => intro c hd _; cases c <;> exact ⟨trivial, hd⟩
    | cons op ops ih =>
      intro c hd hops
      have hop := hops op (by simp)
      have hcf1 : clockFree s op := by
        unfold clockFree
        rcases hop with h | h <;> rw [h]
        · exact hd
        · trivial
      cases c with
      | nil =>
        obtain ⟨a, b⟩ := ih (step sha ph s op 0).1 [] (C12_step_deterministic sha ph s op 0 hd hop)
          (fun x hx => hops x (by simp [hx]))
        exact ⟨⟨hcf1, a⟩, b⟩
      | cons n ns =>
        obtain ⟨a, b⟩ := ih (step sha ph s op n).1 ns (C12_step_deterministic sha ph s op n hd hop)
          (fun x hx => hops x (by simp [hx]))
        exact ⟨⟨hcf1, a⟩, b⟩
  obtain ⟨h1, h2⟩ := hcf s ops c1 hd hops
  obtain ⟨e1, e2⟩ := C12_noninterference sha ph s ops c1 c2 h1
  exact ⟨e1, e2, h2⟩

/-- an image created with the nil ID and the zero time (what `OptCreateDeterministic` sets:
    `C12_create_det_option`) is deterministic, whatever objects it is created with -/
theorem C12_created_deterministic (be : Backend) (co : CreateOpts) (hcap : 0 ≤ co.capacity)
    (hdoff : 128 ≤ co.doff) (hid : co.id = nilUUID) (ht : co.t = zeroTime)
    (h : (createContainerPlan sha ph be co).2.2 = .ok) :
    (createContainerPlan sha ph be co).2.1.isDeterministic = true := by
  obtain ⟨_, _, hh⟩ := C01.C01_create sha ph be co hcap hdoff h
  simp only at hh
  obtain ⟨_, h2, h3, h4, _⟩ := hh
  simp [Img.isDeterministic, h2, h3, h4, hid, ht]

/-- **from a deterministic creation through any history without explicit times**: the same handle
    and byte-identical contents whatever the clock reads at each step, deterministic at the end -/
theorem C12_from_creation (be : Backend) (co : CreateOpts) (hcap : 0 ≤ co.capacity)
    (hdoff : 128 ≤ co.doff) (hid : co.id = nilUUID) (ht : co.t = zeroTime)
    (h : (createContainerPlan sha ph be co).2.2 = .ok) (st0 : Store)
    (ops : List Op) (c1 c2 : List Int) (hops : ∀ op ∈ ops, plainOpt op) :
    let s0 : Img := { (createContainerPlan sha ph be co).2.1 with st := st0 }
    runClock sha ph s0 ops c1 = runClock sha ph s0 ops c2 ∧
    (runClock sha ph s0 ops c1).st.buf = (runClock sha ph s0 ops c2).st.buf ∧
    (runClock sha ph s0 ops c1).isDeterministic = true := by
  intro s0
  have hd : s0.isDeterministic = true := by
    have := C12_created_deterministic sha ph be co hcap hdoff hid ht h
    simpa [Img.isDeterministic, s0] using this
  exact C12_deterministic_history sha ph s0 ops c1 c2 hd hops

end Sif.C12
