/-
  Props/C02.lean — Histories follow the reference model; rejected operations change nothing.
  Property theorems only.
-/
import SifVerif.Proofs.CreateWF
import SifVerif.Proofs.Placed
import SifVerif.Proofs.Refine
import SifVerif.Proofs.Primary
import SifVerif.Proofs.RangesStep
import SifVerif.Proofs.CreateRanges
namespace Sif.C02

variable (sha : Bytes → Bytes) (ph : Bytes → Option Bytes)

/-- **A rejected operation changes nothing**: whatever the reason (unknown ID, full table, second
    primary partition, oversize name or metadata, wrong type, failing source reader, invalid
    selector), the header, every descriptor, the cached minimum IDs, every object's content, and
    the header/table bytes of the file are exactly as before. -/
theorem C02_rejected (s : Img) (W : WF s) (P : Placed s) (R : Ranges s) (op : Op) (now : Int)
    (hrej : (step sha ph s op now).2 ≠ .ok) (hio : (step sha ph s op now).2 ≠ .err .io) :
    (step sha ph s op now).1.h = s.h ∧ (step sha ph s op now).1.rds = s.rds ∧
    (step sha ph s op now).1.minIDs = s.minIDs ∧ view (step sha ph s op now).1 = view s ∧
    slice (step sha ph s op now).1.st.buf 0 128 = slice s.st.buf 0 128 ∧
    slice (step sha ph s op now).1.st.buf s.h.doff.toNat (585 * s.rds.length)
      = slice s.st.buf s.h.doff.toNat (585 * s.rds.length) := by
  by_cases hrl : op = .reload
  · subst hrl
    simp only [step, WF.load s W R] at hrej
    exact absurd rfl hrej
  obtain ⟨st', hcalls, hs', hres⟩ := step_store sha ph s op now hrl hio
  have hplanrej : (plan sha ph s op now).2.2 ≠ .ok := by rw [← hres]; exact hrej
  have hmem := (plan_shape sha ph s op now).1 hplanrej
  have W' := WF_step sha ph s W R op now hio
  have hh : (step sha ph s op now).1.h = s.h := by rw [hs', hmem]
  have hr : (step sha ph s op now).1.rds = s.rds := by rw [hs', hmem]
  have hm : (step sha ph s op now).1.minIDs = s.minIDs := by rw [hs', hmem]
  refine ⟨hh, hr, hm, ?_, ?_, ?_⟩
  · simp only [view, hh, hr, View.mk.injEq, true_and]
    apply List.map_congr_left
    intro d hd
    have hd' : d ∈ s.rds ∧ d.used = true := by simpa [live] using hd
    obtain ⟨i, hi, hid⟩ := List.getElem_of_mem hd'.1
    have hdi : s.rds[i]? = some d := by rw [List.getElem?_eq_getElem hi, hid]
    have := (step_frame sha ph s W P R op now i d hdi hd'.2 (fun h => absurd h hplanrej) hio).1
    simp [objView, hm, this]
  · rw [W'.sync.hhdr, W.sync.hhdr, hh]
  · have := W'.sync.htab
    rw [hh, hr] at this
    rw [this, W.sync.htab]

/-- **A delete whose selector answers with an error deletes nothing**, wherever in the table the
    error arises — in particular after objects before it were already selected (a caller's own
    selector function may accept object 1 and fail on object 2): the handle, and every byte of the
    file, are exactly as before, and the selector's error is the result.  (Before fix D14 the
    library removed, and with `OptDeleteZero` zeroed, the objects selected before the error.) -/
theorem C02_del_selector_error (s : Img) (sel : Sel) (z c : Bool) (t : TOpt) (now : Int) (e : Err)
    (h : sel.firstErr ph s.rds = some e) :
    step sha ph s (.del sel z c t) now = (s, .err e) := by
  simp only [step, plan, deleteObjectsPlan, deleteLoop_err ph sel e z _ _ _ _ _ h, runPlan,
    Store.callsPrefix]

/-- the selector of `C02_del_selector_error`: accepts object 1, fails on object 2 -/
def exPred : Sel := .pred (fun d => if d.id == 2 then .error .caller else .ok true)

example : exPred.firstErr (fun _ => none)
    [{ zeroDesc with used := true, id := 1 }, { zeroDesc with used := true, id := 2 }] = some .caller := by
  decide

/-- live object IDs are unique and non-colliding, and free + used descriptors = capacity, in every
    well-formed state; both are preserved by every operation (hence hold along every history) -/
theorem C02_ids_accounting (s : Img) (W : WF s) :
    ((live s.rds).map (·.id)).Nodup ∧ s.h.dfree + (live s.rds).length = s.h.dtotal ∧
    s.h.dtotal = s.rds.length :=
  ⟨W.uniq, W.acct, W.total⟩

theorem C02_invariant_step (s : Img) (W : WF s) (R : Ranges s) (op : Op) (now : Int)
    (hio : (step sha ph s op now).2 ≠ .err .io) :
    WF (step sha ph s op now).1 := WF_step sha ph s W R op now hio

theorem C02_history (s : Img) (ops : List (Op × Int)) (W : WF s)
    (hR : ∀ k, Ranges (runOps sha ph s (ops.take k)))
    (hio : ∀ k op now, ops[k]? = some (op, now) →
      (step sha ph (runOps sha ph s (ops.take k)) op now).2 ≠ .err .io) :
    let s' := runOps sha ph s ops
    ((live s'.rds).map (·.id)).Nodup ∧ s'.h.dfree + (live s'.rds).length = s'.h.dtotal :=
  let W' := WF_history sha ph s ops W hR hio
  ⟨W'.uniq, W'.acct⟩

/-- a new image (any capacity ≥ 0, any initial objects the library accepts) is well-formed -/
theorem C02_created (be : Backend) (co : CreateOpts) (hcap : 0 ≤ co.capacity) (hdoff : 128 ≤ co.doff)
    (h : (createContainerPlan sha ph be co).2.2 = .ok) :
    ∃ st', (emptyStore be).calls (createContainerPlan sha ph be co).1 = some st' ∧
      WF { (createContainerPlan sha ph be co).2.1 with st := st' } :=
  let ⟨st', h1, h2, _, _⟩ := createContainerPlan_ok sha ph be co hcap hdoff trivial h
  ⟨st', h1, h2⟩

/-- `AddObject` never hands out an ID that a live object already has (repair of D5): the slot it
    picks is unused and its derived ID is not in use, for *any* table, well-formed or not -/
theorem C02_add_fresh_id (rds : List RawDesc) (h : findFreeSlot rds < rds.length) :
    (rds.getD (findFreeSlot rds) zeroDesc).used = false ∧
    ∀ d ∈ rds, d.used = true → d.id ≠ findFreeSlot rds + 1 := by
  obtain ⟨h1, h2⟩ := findFreeSlot_spec rds h
  refine ⟨h1, ?_⟩
  intro d hd hu hid
  simp only [idInUse, List.any_eq_false, Bool.and_eq_true, beq_iff_eq, not_and] at h2
  exact h2 d hd hu hid

/-- the requested modification time is the one recorded (default: the clock reading unless the
    image is deterministic; deterministic: the zero time; explicit: that value) -/
theorem C02_mtime (s : Img) (op : Op) (now : Int) (hok : (plan sha ph s op now).2.2 = .ok) :
    match op with
    | .add _ t => (plan sha ph s op now).2.1.h.mtime = resolveTime s t now
    | .del _ _ _ t => (plan sha ph s op now).2.1.h.mtime = resolveTime s t now
    | .setMeta _ _ t => (plan sha ph s op now).2.1.h.mtime = resolveTime s t now
    | .setOCI _ _ t => (plan sha ph s op now).2.1.h.mtime = resolveTime s t now
    | _ => True := by
  cases op with
  | add di t =>
    simp only [plan] at hok ⊢
    rcases addObjectPlan_cases sha ph s di t now with ⟨calls, e, h⟩ | ⟨calls, d, arch, _, _, _, h⟩
    · rw [h] at hok; cases hok
    · simp only at h; rw [h]
  | del sel z c t =>
    simp only [plan] at hok ⊢
    rcases deleteObjectsPlan_cases ph s sel z c t now with ⟨calls, e, h⟩ | ⟨_, _, h⟩
    · rw [h] at hok; cases hok
    · rw [h]; cases c <;> simp [deleteResult, deleteFinish]
  | setMeta id md t =>
    simp only [plan, setMetadataPlan] at hok ⊢
    cases h1 : getDescriptorIdx ph s.rds [Sel.id id] with
    | error e => simp [h1] at hok
    | ok k =>
      simp only [h1] at hok ⊢
      rcases setExtraPlan_cases sha s k md (resolveTime s t now) with ⟨e, h⟩ | ⟨d', _, h⟩
      · rw [h] at hok; cases hok
      · simp only at h; rw [h]
  | setOCI id text t =>
    simp only [plan, setOCIBlobDigestPlan] at hok ⊢
    cases h1 : getDescriptorIdx ph s.rds [Sel.id id] with
    | error e => simp [h1] at hok
    | ok k =>
      simp only [h1] at hok ⊢
      split at hok
      · cases hok
      · rename_i h2
        rcases setExtraPlan_cases sha s k (.ociText text) (resolveTime s t now) with ⟨e, h⟩ | ⟨d', _, h⟩
        · rw [h] at hok; cases hok
        · simp only at h
          simp only [h2, Bool.false_eq_true, ↓reduceIte]
          rw [h]
  | _ => trivial

/-! ### refinement of the abstract reference model (Model/Spec.lean) -/

/-- **Every operation is the reference model's operation.**  From any well-formed, correctly
    placed handle — created by the library or loaded from someone else's file — a concrete step
    (on header, descriptor table, minimum-ID cache and the bytes of the store) answers what the
    abstract step answers on the abstract view (header attributes + slots of objects with their
    attributes and content), and leads to the abstract view the abstract step leads to.  Outside
    the reference model: store failures and the two integer-overflow refusals. -/
theorem C02_refine (s : Img) (W : WF s) (P : Placed s) (R : Ranges s) (op : Op) (now : Int)
    (hout : (step sha ph s op now).2.outsideSpec = false) :
    (step sha ph s op now).2 = ((abs s).step sha ph op now).2 ∧
    abs (step sha ph s op now).1 = ((abs s).step sha ph op now).1 := by
  have hio : (step sha ph s op now).2 ≠ .err .io := by
    intro h; rw [h] at hout; simp [Res.outsideSpec] at hout
  cases op with
  | add di t => exact refine_add sha ph s W P R di t now hout
  | del sel z c t => exact refine_del sha ph s W P R sel z c t now hio
  | setPrim id t => exact refine_setPrim sha ph s W P R id t now hio
  | setMeta id md t => exact refine_setMeta sha ph s W P R id md t now hio
  | setOCI id text t => exact refine_setOCI sha ph s W P R id text t now hio
  | reload =>
    simp only [step, WF.load s W R, AImg.step]
    exact ⟨trivial, rfl⟩

/-- … hence **whole histories** (including reloads) present exactly the objects the reference
    model predicts, at every length -/
theorem C02_refine_history (s : Img) (ops : List (Op × Int)) (W : WF s) (P : Placed s)
    (hR : ∀ k, Ranges (runOps sha ph s (ops.take k)))
    (hout : ∀ k op now, ops[k]? = some (op, now) →
      (step sha ph (runOps sha ph s (ops.take k)) op now).2.outsideSpec = false) :
    abs (runOps sha ph s ops) = (abs s).runOps sha ph ops ∧
    ∀ k op now, ops[k]? = some (op, now) →
      (step sha ph (runOps sha ph s (ops.take k)) op now).2 =
        (((abs s).runOps sha ph (ops.take k)).step sha ph op now).2 := by
  induction ops generalizing s with
  | nil => exact ⟨rfl, fun k op now h => by simp at h⟩
  | cons x rest ih =>
    obtain ⟨op, now⟩ := x
    have R0 : Ranges s := by simpa [runOps] using hR 0
    have hout0 := hout 0 op now (by simp)
    simp only [List.take_zero, runOps] at hout0
    have hio0 : (step sha ph s op now).2 ≠ .err .io := by
      intro h; rw [h] at hout0; simp [Res.outsideSpec] at hout0
    obtain ⟨r0, a0⟩ := C02_refine sha ph s W P R0 op now hout0
    have W' := WF_step sha ph s W R0 op now hio0
    have P' := Placed_step sha ph s W P R0 op now hio0
    obtain ⟨ih1, ih2⟩ := ih (step sha ph s op now).1 W' P'
      (fun k => by simpa [runOps] using hR (k + 1))
      (fun k op' now' hk => by simpa [runOps] using hout (k + 1) op' now' (by simpa using hk))
    refine ⟨?_, ?_⟩
    · simp only [runOps, AImg.runOps]
      rw [ih1, a0]
    · intro k op' now' hk
      cases k with
      | zero =>
        simp only [List.getElem?_cons_zero, Option.some.injEq, Prod.mk.injEq] at hk
        obtain ⟨rfl, rfl⟩ := hk
        simpa [runOps, AImg.runOps] using r0
      | succ k =>
        have := ih2 k op' now' (by simpa using hk)
        simpa [runOps, AImg.runOps, a0] using this

/-- **Representability is an invariant, not an assumption**: from a well-formed handle whose
    numbers fit their Go types and whose objects end below 2^63, every operation whose *inputs* fit
    (clock reading and explicit times in int64, data type in int32, link in uint32, a 3-byte
    architecture code) and which does not push the end of the data section beyond int64 leads to
    such a handle again (`Proofs/RangesStep.lean`). -/
theorem C02_ranges_step (s : Img) (W : WF s) (R : Ranges s) (E : EndsOK s) (op : Op) (now : Int)
    (hin : Op.InRange s op now) (hio : (step sha ph s op now).2 ≠ .err .io) :
    Ranges (step sha ph s op now).1 ∧ EndsOK (step sha ph s op now).1 :=
  Ranges_step sha ph s W R E op now hin hio

/-- … so the history form of the refinement needs representability of the *start* and of the
    *inputs* only -/
theorem C02_refine_history_inputs (s : Img) (ops : List (Op × Int)) (W : WF s) (P : Placed s)
    (R : Ranges s) (E : EndsOK s)
    (hin : ∀ k op now, ops[k]? = some (op, now) → Op.InRange (runOps sha ph s (ops.take k)) op now)
    (hout : ∀ k op now, ops[k]? = some (op, now) →
      (step sha ph (runOps sha ph s (ops.take k)) op now).2.outsideSpec = false) :
    abs (runOps sha ph s ops) = (abs s).runOps sha ph ops ∧
    ∀ k op now, ops[k]? = some (op, now) →
      (step sha ph (runOps sha ph s (ops.take k)) op now).2 =
        (((abs s).runOps sha ph (ops.take k)).step sha ph op now).2 :=
  C02_refine_history sha ph s ops W P
    (Ranges_history sha ph s ops W R E hin (fun k op now hk h => by
      have := hout k op now hk
      rw [h] at this
      simp [Res.outsideSpec] at this))
    hout

/-- **from `CreateContainer` through any history**: creation options and inputs representable, no
    store failure and no overflow refusal — then the handle presents exactly the objects the
    reference model predicts from the created image's abstract view, and answers every operation as
    the reference model does.  No hypothesis mentions an invariant of a state. -/
theorem C02_from_creation (be : Backend) (co : CreateOpts) (hin : co.InRange) (hdoff : 128 ≤ co.doff)
    (h : (createContainerPlan sha ph be co).2.2 = .ok) (ops : List (Op × Int)) :
    ∃ st', (emptyStore be).calls (createContainerPlan sha ph be co).1 = some st' ∧
      let s0 : Img := { (createContainerPlan sha ph be co).2.1 with st := st' }
      ((∀ k op now, ops[k]? = some (op, now) → Op.InRange (runOps sha ph s0 (ops.take k)) op now) →
       (∀ k op now, ops[k]? = some (op, now) →
          (step sha ph (runOps sha ph s0 (ops.take k)) op now).2.outsideSpec = false) →
       abs (runOps sha ph s0 ops) = (abs s0).runOps sha ph ops ∧
       ∀ k op now, ops[k]? = some (op, now) →
         (step sha ph (runOps sha ph s0 (ops.take k)) op now).2 =
           (((abs s0).runOps sha ph (ops.take k)).step sha ph op now).2) := by
  have hcap : co.capacity < maxU32 := by
    by_cases hc : co.capacity ≥ maxU32
    · unfold createContainerPlan at h; simp [hc] at h
    · omega
  obtain ⟨st', h1, W, P, _⟩ := createContainerPlan_ok sha ph be co hin.2.2.1 hdoff trivial h
  obtain ⟨R, E⟩ := createContainerPlan_ranges sha ph be co hin hcap
  exact ⟨st', h1, fun hi hout =>
    C02_refine_history_inputs sha ph _ ops W P ⟨R.hv, R.dv⟩ E hi hout⟩

/-- the input bounds are satisfiable: a set-metadata at an explicit time, at any clock reading in range -/
example (s : Img) : Op.InRange s (.setMeta 1 (.raw [1]) (.at 1700000000)) 1700000000 := by
  refine ⟨by unfold I64; omega, ?_⟩
  show I64 1700000000
  unfold I64; omega

/-- in the reference model a rejected operation returns the image unchanged (by definition of each
    operation), so with `C02_refine` the abstract view of a handle survives every rejected call -/
theorem C02_spec_rejected (a : AImg) (op : Op) (now : Int) (h : (a.step sha ph op now).2 ≠ .ok) :
    (a.step sha ph op now).1 = a := by
  cases op with
  | add di t =>
    simp only [AImg.step, AImg.add] at h ⊢
    repeat' split
    all_goals first | rfl | (exfalso; simp_all)
  | del sel z c t =>
    simp only [AImg.step, AImg.del] at h ⊢
    repeat' split
    all_goals first | rfl | (exfalso; simp_all)
  | setPrim id t =>
    simp only [AImg.step, AImg.setPrim] at h ⊢
    repeat' split
    all_goals first | rfl | (exfalso; simp_all)
  | setMeta id md t =>
    simp only [AImg.step, AImg.setMeta, AImg.setExtraAt] at h ⊢
    repeat' split
    all_goals first | rfl | (exfalso; simp_all)
  | setOCI id text t =>
    simp only [AImg.step, AImg.setOCI, AImg.setExtraAt] at h ⊢
    repeat' split
    all_goals first | rfl | (exfalso; simp_all)
  | reload => rfl

/-! ### the primary-partition clause -/

/-- **In the reference model**: "at most one primary system partition exists and the image's
    architecture is that partition's (unknown if none)" (`AImg.PrimInv`) is preserved by every
    operation that does not write partition metadata as raw bytes (`Op.partClean`: an added
    partition is described through the partition option; set-metadata is not aimed at a partition). -/
theorem C02_primary_spec (a : AImg) (H : a.PrimInv) (op : Op) (now : Int) (hc : Op.partClean a op) :
    (a.step sha ph op now).1.PrimInv := spec_step_prim sha ph a H op now hc

/-- … **hence on every handle**, by refinement -/
theorem C02_primary (s : Img) (W : WF s) (P : Placed s) (R : Ranges s) (op : Op) (now : Int)
    (H : (abs s).PrimInv) (hc : Op.partClean (abs s) op)
    (hout : (step sha ph s op now).2.outsideSpec = false) :
    (abs (step sha ph s op now).1).PrimInv := by
  rw [(C02_refine sha ph s W P R op now hout).2]
  exact spec_step_prim sha ph (abs s) H op now hc

/-- … and along every history of such operations, from any well-formed image that satisfies it
    (a freshly created empty image does: `C02_primary_empty`) -/
theorem C02_primary_history (s : Img) (ops : List (Op × Int)) (W : WF s) (P : Placed s)
    (hR : ∀ k, Ranges (runOps sha ph s (ops.take k)))
    (hout : ∀ k op now, ops[k]? = some (op, now) →
      (step sha ph (runOps sha ph s (ops.take k)) op now).2.outsideSpec = false)
    (H : (abs s).PrimInv)
    (hc : ∀ k op now, ops[k]? = some (op, now) →
      Op.partClean (abs (runOps sha ph s (ops.take k))) op) :
    (abs (runOps sha ph s ops)).PrimInv := by
  induction ops generalizing s with
  | nil => exact H
  | cons x rest ih =>
    obtain ⟨op, now⟩ := x
    have R0 : Ranges s := by simpa [runOps] using hR 0
    have hout0 := hout 0 op now (by simp)
    simp only [List.take_zero, runOps] at hout0
    have hc0 := hc 0 op now (by simp)
    simp only [List.take_zero, runOps] at hc0
    have hio0 : (step sha ph s op now).2 ≠ .err .io := by
      intro h; rw [h] at hout0; simp [Res.outsideSpec] at hout0
    simp only [runOps]
    apply ih (step sha ph s op now).1 (WF_step sha ph s W R0 op now hio0)
      (Placed_step sha ph s W P R0 op now hio0)
    · intro k; simpa [runOps] using hR (k + 1)
    · intro k op' now' hk
      simpa [runOps] using hout (k + 1) op' now' (by simpa using hk)
    · exact C02_primary sha ph s W P R0 op now H hc0 hout0
    · intro k op' now' hk
      simpa [runOps] using hc (k + 1) op' now' (by simpa using hk)

/-- an image without objects whose architecture is `unknown` satisfies the clause -/
theorem C02_primary_empty (s : Img) (h : ∀ d ∈ s.rds, d.used = false) (ha : s.h.arch = archUnknown) :
    (abs s).PrimInv := by
  apply PrimInv_of_no_objects
  · intro i o hi
    have hs : (abs s).slots = s.rds.map (absSlot s.st) := rfl
    rw [hs, List.getElem?_map] at hi
    cases hd : s.rds[i]? with
    | none => rw [hd] at hi; cases hi
    | some d =>
      rw [hd] at hi
      simp only [Option.map_some, Option.some.injEq] at hi
      unfold absSlot at hi
      rw [h d (List.mem_of_getElem? hd)] at hi
      cases hi
  · exact ha

/-- finding D7, in the reference model: set-metadata with raw bytes that encode a primary
    partition, aimed at a system partition next to the primary one, leaves two primary partitions -/
theorem C02_D7_witness :
    let mk : Nat → Int → Bytes → Option AObj := fun id pt ar =>
      some { d := { zeroDesc with used := true, id := id, dtype := dtPartition, extra := pad 384 (encPartition 1 pt ar) }, content := [] }
    let a : AImg := { launch := [], arch := [48, 49, 0], id := [], ctime := 0, mtime := 0,
                      slots := [mk 1 partSystem [48, 50, 0], mk 2 partPrimSys [48, 49, 0]] }
    let a' := (a.step (fun _ => []) (fun _ => none)
      (.setMeta 1 (.raw (encPartition 1 partPrimSys [48, 50, 0])) .det) 0).1
    (a'.slots.filterMap (fun o => o)).map AImg.isPrimary = [true, true] := by
  decide

end Sif.C02
