import SifVerif.Generated.Facts
import SifVerif.Model.Layout
/-!
# Regenerated source facts vs. the hand-written model: layouts and constants (C11, C01, C02)

`Generated/Facts.lean` is rewritten from `$REPO`'s Go sources (go/types) by `extract/` on every
run and is never committed.  Each theorem below compares one extracted fact with what the model
assumes; all are closed by `decide`, so a source edit that reorders a struct, changes a field
width, a constant, the magic, or the architecture table breaks the build of this module.
-/
namespace Sif.Facts
open Sif

/-- cumulative byte offsets of a field list -/
def offsets : List (String × String × Nat) → Nat → List Nat
  | [], o => [o]
  | (_, _, n) :: r, o => o :: offsets r (o + n)

/-- `header`: field order, kinds and widths are those `encHdr`/`decHdr` use -/
theorem header_layout : Gen.layout_header =
    [("LaunchScript", "bytes", 32), ("Magic", "bytes", 10), ("Version", "bytes", 3), ("Arch", "bytes", 3),
     ("ID", "bytes", 16), ("CreatedAt", "i64", 8), ("ModifiedAt", "i64", 8), ("DescriptorsFree", "i64", 8),
     ("DescriptorsTotal", "i64", 8), ("DescriptorsOffset", "i64", 8), ("DescriptorsSize", "i64", 8),
     ("DataOffset", "i64", 8), ("DataSize", "i64", 8)] := by decide

/-- the offsets `decHdr` slices at, and the 128-byte total -/
theorem header_offsets : offsets Gen.layout_header 0 =
    [0, 32, 42, 45, 48, 64, 72, 80, 88, 96, 104, 112, 120, hdrSize] := by decide

theorem descriptor_layout : Gen.layout_rawDescriptor =
    [("DataType", "i32", 4), ("Used", "bool", 1), ("ID", "u32", 4), ("GroupID", "u32", 4), ("LinkedID", "u32", 4),
     ("Offset", "i64", 8), ("Size", "i64", 8), ("SizeWithPadding", "i64", 8), ("CreatedAt", "i64", 8),
     ("ModifiedAt", "i64", 8), ("UID", "i64", 8), ("GID", "i64", 8), ("Name", "bytes", 128), ("Extra", "bytes", 384)] := by
  decide

/-- the offsets `decDesc` slices at, and the 585-byte total -/
theorem descriptor_offsets : offsets Gen.layout_rawDescriptor 0 =
    [0, 4, 5, 9, 13, 17, 25, 33, 41, 49, 57, 65, 73, 201, descSize] := by decide

theorem partition_layout : Gen.layout_partition = [("Fstype", "i32", 4), ("Parttype", "i32", 4), ("Arch", "bytes", 3)] := by decide
theorem signature_layout : Gen.layout_signature = [("Hashtype", "i32", 4), ("Entity", "bytes", 256)] := by decide
theorem cryptoMessage_layout : Gen.layout_cryptoMessage = [("Formattype", "i32", 4), ("Messagetype", "i32", 4)] := by decide
theorem sbom_layout : Gen.layout_sbom = [("Format", "i32", 4)] := by decide

theorem lengths : Gen.c_hdrLaunchLen = hdrLaunchLen ∧ Gen.c_hdrMagicLen = hdrMagicLen ∧ Gen.c_hdrVersionLen = hdrVersionLen ∧
    Gen.c_descrGroupMask = descrGroupMask ∧ Gen.c_descrEntityLen = descrEntityLen ∧ Gen.c_descrNameLen = descrNameLen ∧
    Gen.c_descrMaxPrivLen = descrMaxPrivLen := by decide

theorem data_types : Gen.c_DataDeffile = dtDeffile ∧ Gen.c_DataEnvVar = dtEnvVar ∧ Gen.c_DataLabels = dtLabels ∧
    Gen.c_DataPartition = dtPartition ∧ Gen.c_DataSignature = dtSignature ∧ Gen.c_DataGenericJSON = dtGenericJSON ∧
    Gen.c_DataGeneric = dtGeneric ∧ Gen.c_DataCryptoMessage = dtCryptoMessage ∧ Gen.c_DataSBOM = dtSBOM ∧
    Gen.c_DataOCIRootIndex = dtOCIRootIndex ∧ Gen.c_DataOCIBlob = dtOCIBlob := by decide

theorem part_types : Gen.c_PartSystem = partSystem ∧ Gen.c_PartPrimSys = partPrimSys ∧ Gen.c_PartData = partData ∧
    Gen.c_PartOverlay = partOverlay := by decide

theorem fs_and_hash_codes : [Gen.c_FsSquash, Gen.c_FsExt3, Gen.c_FsImmuObj, Gen.c_FsRaw, Gen.c_FsEncryptedSquashfs] = [1, 2, 3, 4, 5] ∧
    [Gen.c_hashSHA256, Gen.c_hashSHA384, Gen.c_hashSHA512, Gen.c_hashBLAKE2S, Gen.c_hashBLAKE2B] = [1, 2, 3, 4, 5] ∧
    Gen.c_DefaultObjectGroup = 1 := by decide

theorem magic : Gen.hdrMagic.map Nat.toUInt8 = hdrMagic := by decide
theorem version : [48, (48 + Gen.c_CurrentVersion.toNat).toUInt8, 0] = curVersion := by decide

/-- the architecture codes are `archCode 0 … archCode 12`, `archCode 0` being "unknown" -/
theorem arch_codes : Gen.archCodes.map (·.map Nat.toUInt8) = (List.range 13).map archCode := by decide

/-- `getSIFArch`'s and `GoArch`'s maps are the model's table `archNames` ↔ `archCode (i+1)` -/
theorem arch_maps :
    Gen.getSIFArchMap.map (fun p => (p.1, p.2.map Nat.toUInt8)) = (List.range 12).map (fun i => (archNames.getD i "", archCode (i + 1))) ∧
    Gen.goArchMap = Gen.getSIFArchMap := by decide

end Sif.Facts
