import SifVerif.Generated.Facts
/-!
# Regenerated source facts: order of I/O and flush calls in the mutators (C09, C08)

The order in which the Go mutators touch the backing store — object data first, then the
descriptor table, then the header; for delete: zeroing, minimum-ID rebuild, resize, table, header —
is what the crash theorems of `Props/C09.lean` reason about.  It is read off the function bodies on
every run; so is the list of calls whose `error` result is discarded (must be empty).
-/
namespace Sif.Facts

theorem add_order : Gen.calls_AddObject = ["writeDataObject", "writeDescriptors", "writeHeader"] := by decide
theorem delete_order : Gen.calls_DeleteObjects = ["zero", "populateMinIDs", "resize", "writeDescriptors", "writeHeader"] := by decide
theorem set_orders : Gen.calls_SetPrimPart = ["writeDescriptors", "writeHeader"] ∧
    Gen.calls_SetMetadata = ["writeDescriptors", "writeHeader"] ∧
    Gen.calls_SetOCIBlobDigest = ["writeDescriptors", "writeHeader"] := by decide
theorem create_order : Gen.calls_createContainer = ["writeDataObject", "writeDescriptors", "writeHeader"] := by decide
theorem helper_orders : Gen.calls_writeDataObject = ["writeDataObjectAt"] ∧ Gen.calls_writeDataObjectAt = ["Seek", "Copy"] ∧
    Gen.calls_zero = ["Seek", "CopyN"] ∧ Gen.calls_resize = ["Seek", "Truncate", "CopyN"] ∧
    Gen.calls_writeDescriptors = ["Seek", "Write"] ∧ Gen.calls_writeHeader = ["Seek", "Write"] := by decide

/-- no mutator or helper discards an `error` result (`f()` as a statement, or `_ = f()`) -/
theorem no_discarded_errors :
    Gen.unchecked_AddObject ++ Gen.unchecked_DeleteObjects ++ Gen.unchecked_SetPrimPart ++ Gen.unchecked_SetMetadata ++
    Gen.unchecked_SetOCIBlobDigest ++ Gen.unchecked_writeDataObject ++ Gen.unchecked_writeDataObjectAt ++
    Gen.unchecked_zero ++ Gen.unchecked_resize ++ Gen.unchecked_writeDescriptors ++ Gen.unchecked_writeHeader ++
    Gen.unchecked_createContainer = [] := by decide

end Sif.Facts
