/-
  Props/C08.lean — An open handle and the reloaded file are indistinguishable.
  Property theorems only (helpers: Proofs/{Sync,MinIDs,WF,Preserve,Step}.lean).
-/
import SifVerif.Proofs.Step
import SifVerif.Proofs.RangesStep
import SifVerif.Proofs.CreateRanges
import SifVerif.Proofs.CreateWF
namespace Sif.C08

variable (sha : Bytes → Bytes) (ph : Bytes → Option Bytes)

/-- For every well-formed handle, loading the current bytes succeeds and yields a handle that
    answers every question identically: header accessors, every live descriptor with its relative
    ID, object contents, and both integrity streams. -/
theorem C08_sync (s : Img) (W : WF s) (R : Ranges s) :
    ∃ s', loadContainer s.st = .ok s' ∧ view s' = view s ∧ s'.h = s.h ∧ s'.rds = s.rds := by
  refine ⟨_, WF.load s W R, ?_, rfl, rfl⟩
  simp only [view, View.mk.injEq, true_and]
  apply List.map_congr_left
  intro d hd
  have hd' : d ∈ s.rds ∧ d.used = true := by simpa [live] using hd
  obtain ⟨e1, e2⟩ := MinCoh.relID_eq (populateMinIDs s.rds) s.minIDs s.rds (populate_coh _) W.coh d
    hd'.1 hd'.2
  simp [objView, e1, e2]

/-- the property is an invariant of every step: after any operation — accepted or rejected — the
    resulting handle and a reload of the resulting bytes are again indistinguishable -/
theorem C08_step (s : Img) (W : WF s) (R : Ranges s) (op : Op) (now : Int)
    (hio : (step sha ph s op now).2 ≠ .err .io) (R' : Ranges (step sha ph s op now).1) :
    ∃ s', loadContainer (step sha ph s op now).1.st = .ok s' ∧
      view s' = view (step sha ph s op now).1 :=
  let ⟨s', h1, h2, _, _⟩ := C08_sync _ (WF_step sha ph s W R op now hio) R'
  ⟨s', h1, h2⟩

/-- … hence of every history, of any length, from any well-formed start (library-created or
    foreign), provided no store I/O error occurs (C09's subject) and no int64 overflows -/
theorem C08_history (s : Img) (ops : List (Op × Int)) (W : WF s)
    (hR : ∀ k, Ranges (runOps sha ph s (ops.take k)))
    (hio : ∀ k op now, ops[k]? = some (op, now) →
      (step sha ph (runOps sha ph s (ops.take k)) op now).2 ≠ .err .io) :
    ∃ s', loadContainer (runOps sha ph s ops).st = .ok s' ∧ view s' = view (runOps sha ph s ops) := by
  have W' := WF_history sha ph s ops W hR hio
  have R' : Ranges (runOps sha ph s ops) := by
    have := hR ops.length; simpa using this
  obtain ⟨s', h1, h2, _, _⟩ := C08_sync _ W' R'
  exact ⟨s', h1, h2⟩

/-- the same with hypotheses on what comes in from outside only: the start satisfies the
    invariants (a created or loaded image does) and every operation's inputs are representable in
    their Go types (`Op.InRange`); `Ranges` of every state reached is then a theorem
    (`Ranges_history`), not an assumption -/
theorem C08_history_inputs (s : Img) (ops : List (Op × Int)) (W : WF s) (R : Ranges s) (E : EndsOK s)
    (hin : ∀ k op now, ops[k]? = some (op, now) → Op.InRange (runOps sha ph s (ops.take k)) op now)
    (hio : ∀ k op now, ops[k]? = some (op, now) →
      (step sha ph (runOps sha ph s (ops.take k)) op now).2 ≠ .err .io) :
    ∃ s', loadContainer (runOps sha ph s ops).st = .ok s' ∧ view s' = view (runOps sha ph s ops) :=
  C08_history sha ph s ops W (Ranges_history sha ph s ops W R E hin hio) hio

/-- … and at every intermediate point of such a history, not only at its end -/
theorem C08_history_everywhere (s : Img) (ops : List (Op × Int)) (W : WF s) (R : Ranges s) (E : EndsOK s)
    (hin : ∀ k op now, ops[k]? = some (op, now) → Op.InRange (runOps sha ph s (ops.take k)) op now)
    (hio : ∀ k op now, ops[k]? = some (op, now) →
      (step sha ph (runOps sha ph s (ops.take k)) op now).2 ≠ .err .io) (k : Nat) :
    ∃ s', loadContainer (runOps sha ph s (ops.take k)).st = .ok s' ∧
      view s' = view (runOps sha ph s (ops.take k)) := by
  apply C08_history_inputs sha ph s (ops.take k) W R E
  · intro j op now hj
    have hj' : ops[j]? = some (op, now) ∧ j < k := by
      rw [List.getElem?_take] at hj
      split at hj
      · exact ⟨hj, by assumption⟩
      · cases hj
    have : (ops.take k).take j = ops.take j := by
      rw [List.take_take]; congr 1; omega
    rw [this]; exact hin j op now hj'.1
  · intro j op now hj
    have hj' : ops[j]? = some (op, now) ∧ j < k := by
      rw [List.getElem?_take] at hj
      split at hj
      · exact ⟨hj, by assumption⟩
      · cases hj
    have : (ops.take k).take j = ops.take j := by
      rw [List.take_take]; congr 1; omega
    rw [this]; exact hio j op now hj'.1

/-- **from `CreateContainer` through any history**: creation options and every operation's inputs
    representable (`CreateOpts.InRange`, `Op.InRange`), no store failure — then after every prefix
    of the history the handle and a fresh load of the bytes are indistinguishable.  No hypothesis
    mentions an invariant of a state. -/
theorem C08_from_creation (be : Backend) (co : CreateOpts) (hin : co.InRange) (hdoff : 128 ≤ co.doff)
    (h : (createContainerPlan sha ph be co).2.2 = .ok) (ops : List (Op × Int)) :
    ∃ st', (emptyStore be).calls (createContainerPlan sha ph be co).1 = some st' ∧
      let s0 : Img := { (createContainerPlan sha ph be co).2.1 with st := st' }
      ((∀ k op now, ops[k]? = some (op, now) → Op.InRange (runOps sha ph s0 (ops.take k)) op now) →
       (∀ k op now, ops[k]? = some (op, now) →
          (step sha ph (runOps sha ph s0 (ops.take k)) op now).2 ≠ .err .io) →
       ∀ k, ∃ s', loadContainer (runOps sha ph s0 (ops.take k)).st = .ok s' ∧
         view s' = view (runOps sha ph s0 (ops.take k))) := by
  have hcap : co.capacity < maxU32 := by
    by_cases hc : co.capacity ≥ maxU32
    · unfold createContainerPlan at h; simp [hc] at h
    · omega
  obtain ⟨st', h1, W, _, _⟩ := createContainerPlan_ok sha ph be co hin.2.2.1 hdoff trivial h
  obtain ⟨R, E⟩ := createContainerPlan_ranges sha ph be co hin hcap
  exact ⟨st', h1, fun hi hio k =>
    C08_history_everywhere sha ph _ ops W ⟨R.hv, R.dv⟩ E hi hio k⟩

/-- a reload step itself changes nothing observable -/
theorem C08_reload_noop (s : Img) (W : WF s) (R : Ranges s) (now : Int) :
    view (step sha ph s .reload now).1 = view s ∧ (step sha ph s .reload now).2 = .ok := by
  obtain ⟨s', h1, h2, _, _⟩ := C08_sync s W R
  simp only [step, h1]
  exact ⟨h2, trivial⟩

/-- signing and verification read the image only through `view` (header stream, descriptors,
    relative IDs, descriptor streams, contents): any function of the view gives the same outcome
    on the handle and on the reload -/
theorem C08_sign_verify_same {α} (f : View → α) (s : Img) (W : WF s) (R : Ranges s) :
    ∃ s', loadContainer s.st = .ok s' ∧ f (view s') = f (view s) :=
  let ⟨s', h1, h2, _, _⟩ := C08_sync s W R
  ⟨s', h1, by rw [h2]⟩

end Sif.C08
