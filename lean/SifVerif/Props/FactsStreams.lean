import SifVerif.Generated.Facts
import SifVerif.Model.Image
import SifVerif.Model.Integrity
/-!
# Regenerated source facts: which fields the integrity streams read (C04, C16)

The field lists are read off the bodies of `header.GetIntegrityReader` and
`Descriptor.GetIntegrityReader` on every run.  `hdrStream`/`descStream` in the model concatenate
exactly these fields in exactly this order; adding, dropping or reordering a field in the Go code
breaks this module.
-/
namespace Sif.Facts
open Sif

/-- the fields `hdrStream` concatenates (Model/Layout.lean) -/
def modelHdrStreamFields : List String := ["LaunchScript", "Magic", "Version", "ID"]
/-- the fields `descStream` concatenates (Model/Image.lean); `relativeID` is `relID minIDs d` -/
def modelDescStreamFields : List String :=
  ["raw.DataType", "raw.Used", "relativeID", "raw.LinkedID", "raw.Size", "raw.CreatedAt", "raw.UID", "raw.GID",
   "raw.Name", "raw.Extra"]

theorem hdr_stream_fields : Gen.hdrIntegrityFields = modelHdrStreamFields := by decide
theorem desc_stream_fields : Gen.descIntegrityFields = modelDescStreamFields := by decide

/-- the stream definitions really are those concatenations -/
theorem hdrStream_def (h : Hdr) :
    hdrStream h = pad 32 h.launch ++ pad 10 h.magic ++ pad 3 h.version ++ pad 16 h.id := rfl
theorem descStream_def (m : List (Nat × Nat)) (d : RawDesc) :
    descStream m d = encS 4 d.dtype ++ encBool d.used ++ encU 4 (relID m d) ++ encU 4 d.link ++
      encS 8 d.size ++ encS 8 d.ctime ++ encS 8 d.uid ++ encS 8 d.gidOwner ++ pad 128 d.name ++ pad 384 d.extra := rfl

theorem media_type : Gen.c_metadataMediaType = "application/vnd.sylabs.sif-metadata+json" ∧
    mediaType = "application/vnd.sylabs.sif-metadata+json".toUTF8.toList := ⟨by decide, rfl⟩

end Sif.Facts
