/-
  Props/C13.lean — Descriptor queries return exactly the matching objects.
  Property theorems only (helper lemmas live in Proofs/Select.lean).
-/
import SifVerif.Proofs.Select
namespace Sif.C13

variable (ph : Bytes → Option Bytes)

/-- `GetDescriptors` = the live descriptors satisfying every selector, in table order — for every
    image and every tuple of selectors none of which is a zero ID / zero group. -/
theorem C13_filter (s : Img) (sels : List Sel) (hne : s.isEmpty = false)
    (hsel : ∀ x ∈ sels, x.noErr = true) :
    getDescriptors ph s sels =
      .ok ((live s.rds).filter (fun d => sels.all (fun x => x.holds ph d))) := by
  unfold getDescriptors
  simp only [hne, Bool.false_eq_true, ↓reduceIte]
  exact selectDescs_pure ph sels s.rds _ (fun d _ _ => multiSel_noErr ph sels d hsel)

/-- the same for any selector tuple that behaves as a pure caller predicate `p` on the in-use
    descriptors (covers caller-supplied selector functions) -/
theorem C13_filter_pred (s : Img) (sels : List Sel) (p : RawDesc → Bool)
    (hne : s.isEmpty = false)
    (hp : ∀ d ∈ s.rds, d.used = true → multiSel ph sels d = .ok (p d)) :
    getDescriptors ph s sels = .ok ((live s.rds).filter p) := by
  unfold getDescriptors
  simp only [hne, Bool.false_eq_true, ↓reduceIte]
  exact selectDescs_pure ph sels s.rds p hp

/-- the same for selectors that include a caller's own function (`Sel.pred`): as long as no
    selector answers with an error on an in-use descriptor of this image, the result is exactly
    the live descriptors every selector accepts, in table order -/
theorem C13_filter_quiet (s : Img) (sels : List Sel) (hne : s.isEmpty = false)
    (hq : ∀ x ∈ sels, ∀ d ∈ s.rds, d.used = true → x.errOn ph d = none) :
    getDescriptors ph s sels =
      .ok ((live s.rds).filter (fun d => sels.all (fun x => x.holds ph d))) := by
  unfold getDescriptors
  simp only [hne, Bool.false_eq_true, ↓reduceIte]
  refine selectDescs_pure ph sels s.rds _ (fun d hd hu => ?_)
  have hq' : ∀ x ∈ sels, x.errOn ph d = none := fun x hx => hq x hx d hd hu
  clear hq
  induction sels with
  | nil => simp [multiSel]
  | cons x xs ih =>
    have hx := hq' x (by simp)
    simp only [multiSel, Sel.eval_quiet ph x d hx, List.all_cons]
    cases hv : x.holds ph d <;> simp [ih (fun y hy => hq' y (by simp [hy]))]

/-- a caller's own total predicate `p` selects exactly the live objects whose attributes satisfy it -/
theorem C13_caller_predicate (s : Img) (p : RawDesc → Bool) (hne : s.isEmpty = false) :
    getDescriptors ph s [.pred (fun d => .ok (p d))] = .ok ((live s.rds).filter (fun d => p (erase d))) := by
  rw [C13_filter_quiet ph s _ hne (by intro x hx d _ _; simp at hx; subst hx; rfl)]
  simp [Sel.holds]

/-- a caller's function that answers with an error on an in-use descriptor makes the query fail
    with that error (the first one in table order); stated for a single selector -/
theorem C13_caller_error (s : Img) (x : Sel) (e : Err) (hne : s.isEmpty = false)
    (h : x.firstErr ph s.rds = some e) :
    getDescriptors ph s [x] = .error e := by
  unfold getDescriptors
  simp only [hne, Bool.false_eq_true, ↓reduceIte]
  generalize s.rds = rds at h
  induction rds with
  | nil => simp [Sel.firstErr] at h
  | cons d ds ih =>
    unfold selectDescs
    simp only [Sel.firstErr, List.findSome?_cons] at h
    cases hu : d.used with
    | false =>
      simp only [hu, Bool.false_eq_true, ↓reduceIte] at h
      simpa [hu] using ih h
    | true =>
      simp only [hu, ↓reduceIte] at h
      cases he : x.errOn ph d with
      | some e' =>
        rw [he] at h
        simp only [Option.some.injEq] at h
        subst h
        simp [multiSel, Sel.eval_loud ph x d e' he]
      | none =>
        rw [he] at h
        simp only [Bool.not_true, Bool.false_eq_true, ↓reduceIte, multiSel, Sel.eval_quiet ph x d he]
        have := ih h
        cases hv : x.holds ph d <;> simp [this]

/-- results are in table order and contain in-use descriptors only -/
theorem C13_sublist (s : Img) (sels : List Sel) (r : List RawDesc)
    (hsel : ∀ x ∈ sels, x.noErr = true) (h : getDescriptors ph s sels = .ok r) :
    r.Sublist s.rds ∧ ∀ d ∈ r, d.used = true := by
  cases hne : s.isEmpty with
  | true => simp [getDescriptors, hne] at h
  | false =>
    rw [C13_filter ph s sels hne hsel] at h
    cases h
    refine ⟨(List.filter_sublist).trans (by unfold live; exact List.filter_sublist), ?_⟩
    intro d hd
    have := (List.mem_filter.mp hd).1
    simpa [live] using (List.mem_filter.mp this).2

/-- the single-object form: not found / the unique match / multiple found -/
theorem C13_single (s : Img) (sels : List Sel) (hne : s.isEmpty = false)
    (hsel : ∀ x ∈ sels, x.noErr = true) :
    let ms := (live s.rds).filter (fun d => sels.all (fun x => x.holds ph d))
    (ms.length = 0 → getDescriptor ph s sels = .error .objectNotFound) ∧
    (ms.length = 1 → ∃ d, ms = [d] ∧ getDescriptor ph s sels = .ok d) ∧
    (ms.length ≥ 2 → getDescriptor ph s sels = .error .multipleObjectsFound) := by
  intro ms
  have hp : ∀ d ∈ s.rds, d.used = true →
      multiSel ph sels d = .ok (sels.all (fun x => x.holds ph d)) :=
    fun d _ _ => multiSel_noErr ph sels d hsel
  obtain ⟨h0, h1, h2⟩ := findOne_none ph sels _ s.rds 0 hp
  unfold getDescriptor getDescriptorIdx
  simp only [hne, Bool.false_eq_true, ↓reduceIte]
  refine ⟨fun h => by rw [h0 h], ?_, fun h => by rw [h2 h]⟩
  intro h
  obtain ⟨k, hk, d, hd, _, _, hms⟩ := h1 h
  refine ⟨d, hms, ?_⟩
  rw [hk]
  simp [List.getD, hd]

/-- an image with no objects is reported as such, by both forms, whatever the selectors -/
theorem C13_empty (s : Img) (sels : List Sel) (he : s.isEmpty = true) :
    getDescriptors ph s sels = .error .noObjects ∧ getDescriptor ph s sels = .error .noObjects := by
  simp [getDescriptors, getDescriptor, he]

/-- zero ID / zero group is an error **when the selector is evaluated**: the selectors before it
    raise no error and accept at least one in-use descriptor.  (`C13_zero_partial`: the
    full-strength reading "for every selector combination" is false of the code, see
    `D6_witness` below; recorded as known finding D6.) -/
theorem C13_zero_partial (s : Img) (pre post : List Sel) (z : Sel) (e : Err)
    (hne : s.isEmpty = false) (hz : z.errOf = some e)
    (hpre : ∀ x ∈ pre, x.noErr = true)
    (hreach : ∃ d ∈ s.rds, d.used = true ∧ pre.all (fun x => x.holds ph d) = true) :
    getDescriptors ph s (pre ++ z :: post) = .error e := by
  unfold getDescriptors
  simp only [hne, Bool.false_eq_true, ↓reduceIte]
  have hms : ∀ d, multiSel ph (pre ++ z :: post) d =
      if pre.all (fun x => x.holds ph d) then .error e else .ok false := by
    intro d
    clear hreach
    induction pre with
    | nil => simp [multiSel, Sel.eval_err ph z d e hz]
    | cons x xs ih =>
      have hx : x.noErr = true := hpre x (by simp)
      have hxs : ∀ y ∈ xs, y.noErr = true := fun y hy => hpre y (by simp [hy])
      simp only [List.cons_append, multiSel, Sel.eval_noErr ph x d hx, List.all_cons]
      rcases Bool.eq_false_or_eq_true (x.holds ph d) with hv | hv <;> simp [hv, ih hxs]
  obtain ⟨d0, hd0, hu0, hall0⟩ := hreach
  generalize s.rds = rds at hd0
  induction rds with
  | nil => simp at hd0
  | cons d ds ih =>
    unfold selectDescs
    cases hu : d.used with
    | false =>
      simp only [Bool.not_false, ↓reduceIte]
      rcases List.mem_cons.mp hd0 with h | h
      · subst h; simp [hu] at hu0
      · exact ih h
    | true =>
      simp only [Bool.not_true, Bool.false_eq_true, ↓reduceIte, hms d]
      cases hv : pre.all (fun x => x.holds ph d) with
      | true => simp
      | false =>
        simp only [Bool.false_eq_true, ↓reduceIte]
        rcases List.mem_cons.mp hd0 with h | h
        · subst h; simp [hv] at hall0
        · rw [ih h]

/-! ### concrete states: hypotheses are satisfiable, and the full-strength zero rule fails -/

def exA : RawDesc := { zeroDesc with used := true, id := 1, dtype := dtGeneric, gid := 0xf0000001 }
def exB : RawDesc := { zeroDesc with used := true, id := 2, dtype := dtDeffile, gid := 0xf0000001 }
def exImg : Img :=
  { h := { (default : Hdr) with dfree := 1, dtotal := 3 }, rds := [exA, zeroDesc, exB],
    minIDs := [(0xf0000001, 1)], st := { be := .buf, buf := [], pos := 0 } }

example : getDescriptors parseHashV1 exImg [.groupID 1] = .ok [exA, exB] := by decide +kernel
example : getDescriptor parseHashV1 exImg [.dataType dtDeffile] = .ok exB := by decide +kernel
example : getDescriptor parseHashV1 exImg [.groupID 1] = .error .multipleObjectsFound := by decide
example : getDescriptors parseHashV1 exImg [.dataType dtGeneric, .id 0] = .error .invalidObjectID := by
  decide

/-- D6: a zero ID placed after a selector that rejects every object is an empty match. -/
theorem D6_witness :
    getDescriptors parseHashV1 exImg [.dataType dtSBOM, .id 0] = .ok [] := by decide

end Sif.C13
