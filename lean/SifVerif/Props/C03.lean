/-
  Props/C03.lean — Object regions never overlap or escape; bystanders are never disturbed.
  Property theorems only (helpers: Proofs/{Create,Frame,Place,Placed,CreateWF}.lean).
-/
import SifVerif.Proofs.CreateWF
import SifVerif.Proofs.Zero
import SifVerif.Proofs.RangesStep
import SifVerif.Proofs.CreateRanges
import SifVerif.Proofs.CleanHistory
namespace Sif.C03

variable (sha : Bytes → Bytes) (ph : Bytes → Option Bytes)

/-- Total specification of the alignment arithmetic on all of int64 ≥ 0 and every alignment:
    non-positive alignment returns the offset; otherwise the result is the least multiple of the
    alignment at or after the offset, it is < offset + alignment, it fits in int64, and the only
    error is `errAlignmentOverflow`, raised exactly when no such multiple fits in int64. -/
theorem C03_nextAligned (off a : Int) (h0 : 0 ≤ off) (hmax : off ≤ maxI64) :
    (a ≤ 0 → nextAligned off a = .ok off) ∧
    (0 < a →
      (∀ r, nextAligned off a = .ok r →
          off ≤ r ∧ r - off < a ∧ a ∣ r ∧ r ≤ maxI64 ∧ ∀ r', off ≤ r' → a ∣ r' → r ≤ r') ∧
      (nextAligned off a = .error .alignmentOverflow ↔ ∀ r', off ≤ r' → a ∣ r' → maxI64 < r') ∧
      (∀ e, nextAligned off a = .error e → e = .alignmentOverflow)) :=
  nextAligned_spec off a h0 hmax

/-- an image created by the library, with any options and initial objects, is correctly placed:
    live regions pairwise disjoint, after the table, inside the data section and the file -/
theorem C03_created (be : Backend) (co : CreateOpts) (hcap : 0 ≤ co.capacity) (hdoff : 128 ≤ co.doff)
    (h : (createContainerPlan sha ph be co).2.2 = .ok) :
    ∃ st', (emptyStore be).calls (createContainerPlan sha ph be co).1 = some st' ∧
      WF { (createContainerPlan sha ph be co).2.1 with st := st' } ∧
      Placed { (createContainerPlan sha ph be co).2.1 with st := st' } :=
  let ⟨st', h1, h2, h3, _⟩ := createContainerPlan_ok sha ph be co hcap hdoff trivial h
  ⟨st', h1, h2, h3⟩

/-- every operation preserves the placement invariant … -/
theorem C03_preserved (s : Img) (W : WF s) (P : Placed s) (R : Ranges s) (op : Op) (now : Int)
    (hio : (step sha ph s op now).2 ≠ .err .io) : Placed (step sha ph s op now).1 :=
  Placed_step sha ph s W P R op now hio

/-- … hence it holds at every point of every history from any well-formed start -/
theorem C03_history (s : Img) (ops : List (Op × Int)) (W : WF s) (P : Placed s)
    (hR : ∀ k, Ranges (runOps sha ph s (ops.take k)))
    (hio : ∀ k op now, ops[k]? = some (op, now) →
      (step sha ph (runOps sha ph s (ops.take k)) op now).2 ≠ .err .io) :
    WF (runOps sha ph s ops) ∧ Placed (runOps sha ph s ops) := by
  induction ops generalizing s with
  | nil => exact ⟨W, P⟩
  | cons x rest ih =>
    obtain ⟨op, now⟩ := x
    simp only [runOps]
    have R0 : Ranges s := by simpa [runOps] using hR 0
    have hio0 := hio 0 op now (by simp)
    simp only [List.take_zero, runOps] at hio0
    apply ih
    · exact WF_step sha ph s W R0 op now hio0
    · exact Placed_step sha ph s W P R0 op now hio0
    · intro k; simpa [runOps] using hR (k + 1)
    · intro k op' now' hk
      simpa [runOps] using hio (k + 1) op' now' (by simpa using hk)

/-- the same with hypotheses on what comes in from outside only (`Op.InRange`: clock, explicit
    times and descriptor fields representable in their Go types, and an add's new data end within
    int64); `Ranges` of every state reached follows (`Ranges_history`) -/
theorem C03_history_inputs (s : Img) (ops : List (Op × Int)) (W : WF s) (P : Placed s) (R : Ranges s)
    (E : EndsOK s)
    (hin : ∀ k op now, ops[k]? = some (op, now) → Op.InRange (runOps sha ph s (ops.take k)) op now)
    (hio : ∀ k op now, ops[k]? = some (op, now) →
      (step sha ph (runOps sha ph s (ops.take k)) op now).2 ≠ .err .io) :
    WF (runOps sha ph s ops) ∧ Placed (runOps sha ph s ops) :=
  C03_history sha ph s ops W P (Ranges_history sha ph s ops W R E hin hio) hio

/-- a created image is a valid start for the input-only history theorems: from hypotheses on the
    creation options alone (`CreateOpts.InRange`: times, offsets, capacity, ID and the objects' typed
    fields representable; table + objects + alignment padding below int64) an accepted
    `CreateContainer` yields `WF`, `Placed`, `Ranges` and `EndsOK` -/
theorem C03_created_inputs (be : Backend) (co : CreateOpts) (hin : co.InRange) (hdoff : 128 ≤ co.doff)
    (h : (createContainerPlan sha ph be co).2.2 = .ok) :
    ∃ st', (emptyStore be).calls (createContainerPlan sha ph be co).1 = some st' ∧
      WF { (createContainerPlan sha ph be co).2.1 with st := st' } ∧
      Placed { (createContainerPlan sha ph be co).2.1 with st := st' } ∧
      Ranges { (createContainerPlan sha ph be co).2.1 with st := st' } ∧
      EndsOK { (createContainerPlan sha ph be co).2.1 with st := st' } := by
  have hcap : co.capacity < maxU32 := by
    by_cases hc : co.capacity ≥ maxU32
    · unfold createContainerPlan at h; simp [hc] at h
    · omega
  obtain ⟨st', h1, h2, h3, _⟩ := createContainerPlan_ok sha ph be co hin.2.2.1 hdoff trivial h
  obtain ⟨R, E⟩ := createContainerPlan_ranges sha ph be co hin hcap
  exact ⟨st', h1, h2, h3, ⟨R.hv, R.dv⟩, E⟩

/-- **from `CreateContainer` through any history**: the creation options and every operation's
    inputs representable, no store failure — then every state reached is well-formed and correctly
    placed.  No hypothesis mentions an intermediate state's invariants. -/
theorem C03_from_creation (be : Backend) (co : CreateOpts) (hin : co.InRange) (hdoff : 128 ≤ co.doff)
    (h : (createContainerPlan sha ph be co).2.2 = .ok) (ops : List (Op × Int)) :
    ∃ st', (emptyStore be).calls (createContainerPlan sha ph be co).1 = some st' ∧
      let s0 : Img := { (createContainerPlan sha ph be co).2.1 with st := st' }
      ((∀ k op now, ops[k]? = some (op, now) → Op.InRange (runOps sha ph s0 (ops.take k)) op now) →
       (∀ k op now, ops[k]? = some (op, now) →
          (step sha ph (runOps sha ph s0 (ops.take k)) op now).2 ≠ .err .io) →
       WF (runOps sha ph s0 ops) ∧ Placed (runOps sha ph s0 ops)) := by
  obtain ⟨st', h1, W, P, R, E⟩ := C03_created_inputs sha ph be co hin hdoff h
  exact ⟨st', h1, fun hi hio => C03_history_inputs sha ph _ ops W P R E hi hio⟩

/-- the creation bounds are satisfiable: default table offset, capacity 48, one 5-byte object
    aligned to 4096 -/
example : ({ launch := [], id := List.replicate 16 0, t := 0,
             dis := [{ (default : DI) with content := [1, 2, 3, 4, 5], alignment := 4096 }] } : CreateOpts).InRange := by
  refine ⟨by show I64 0; unfold I64; omega, by decide, by decide, by decide, ?_, by decide⟩
  intro di hdi
  simp only [List.mem_singleton] at hdi
  subst hdi
  refine ⟨by unfold I32; decide, by unfold U32; decide, by unfold I64; decide, ?_⟩
  intro fs pt a hmd; cases hmd

/-- the descriptor table lies where the header says, after the header and before the data
    section, and the bytes there are exactly the encoding of the in-memory table -/
theorem C03_table (s : Img) (W : WF s) :
    128 ≤ s.h.doff ∧ s.h.doff + 585 * s.rds.length ≤ s.h.dataOff ∧
    slice s.st.buf s.h.doff.toNat (585 * s.rds.length) = encTable s.rds ∧
    ∀ d ∈ s.rds, d.used = true → 0 ≤ d.off ∧ 0 ≤ d.size :=
  ⟨W.doff, W.tabEnd, W.sync.htab, W.lo⟩

/-- **bystanders**: adding, deleting, zeroing, compacting, or editing one object never changes a
    byte of any other live object's data region (and keeps it inside the file) -/
theorem C03_frame (s : Img) (W : WF s) (P : Placed s) (R : Ranges s) (op : Op) (now : Int)
    (i : Nat) (d : RawDesc) (hd : s.rds[i]? = some d) (hu : d.used = true)
    (hsv : (plan sha ph s op now).2.2 = .ok → survives ph op d)
    (hio : (step sha ph s op now).2 ≠ .err .io) :
    objContent (step sha ph s op now).1.st d = objContent s.st d ∧
    (0 < d.size → d.off + d.size ≤ (step sha ph s op now).1.st.buf.length) :=
  step_frame sha ph s W P R op now i d hd hu hsv hio

/-- **bystanders, at any point of any history from creation**: after an accepted `CreateContainer`
    (options representable, capacity positive) and any history of operations with representable
    inputs and no store failure, the next operation — whatever it is — leaves every live object it
    does not delete with byte-identical content inside the file.  The invariants `C03_frame` asks of
    the state are consequences (`C09Inv_history`), not hypotheses. -/
theorem C03_frame_after_history (be : Backend) (co : CreateOpts) (hin : co.InRange) (hcap : 0 < co.capacity)
    (hdoff : 128 ≤ co.doff) (h : (createContainerPlan sha ph be co).2.2 = .ok)
    (ops : List (Op × Int)) (op : Op) (now : Int) :
    ∃ st0, (emptyStore be).calls (createContainerPlan sha ph be co).1 = some st0 ∧
      let s0 : Img := { (createContainerPlan sha ph be co).2.1 with st := st0 }
      ((∀ k op now, ops[k]? = some (op, now) → Op.InRange (runOps sha ph s0 (ops.take k)) op now) →
       (∀ k op now, ops[k]? = some (op, now) →
          (step sha ph (runOps sha ph s0 (ops.take k)) op now).2 ≠ .err .io) →
       (step sha ph (runOps sha ph s0 ops) op now).2 ≠ .err .io →
       ∀ (i : Nat) (d : RawDesc), (runOps sha ph s0 ops).rds[i]? = some d → d.used = true →
         ((plan sha ph (runOps sha ph s0 ops) op now).2.2 = .ok → survives ph op d) →
         objContent (step sha ph (runOps sha ph s0 ops) op now).1.st d = objContent (runOps sha ph s0 ops).st d ∧
         (0 < d.size → d.off + d.size ≤ (step sha ph (runOps sha ph s0 ops) op now).1.st.buf.length)) := by
  obtain ⟨st0, h1, I0⟩ := created_C09Inv sha ph be co hin hcap hdoff h
  refine ⟨st0, h1, ?_⟩
  intro s0 hi hio hio' i d hd hu hsv
  have I := C09Inv_history sha ph s0 ops I0 hi hio ops.length
  rw [List.take_length] at I
  exact C03_frame sha ph _ I.wf I.placed I.ranges op now i d hd hu hsv hio'

/-- … nor a byte of its descriptor: slots other than the one `AddObject` fills are unchanged -/
theorem C03_frame_desc_add (s : Img) (di : DI) (t : TOpt) (now : Int) (j : Nat)
    (hj : j ≠ findFreeSlot s.rds) :
    (plan sha ph s (.add di t) now).2.1.rds[j]? = s.rds[j]? := by
  simp only [plan]
  rcases addObjectPlan_cases sha ph s di t now with ⟨calls, e, h⟩ | ⟨calls, d, arch, _, _, _, h⟩
  · rw [h]
  · simp only at h
    rw [h]
    simp only [commitObject]
    exact List.getElem?_set_ne (Ne.symm hj)

/-- … and a delete leaves every unselected descriptor untouched, slot by slot -/
theorem C03_frame_desc_del (s : Img) (sel : Sel) (z c : Bool) (t : TOpt) (now : Int) (j : Nat)
    (d : RawDesc) (hd : s.rds[j]? = some d) (hnh : hit ph sel d = false) :
    (plan sha ph s (.del sel z c t) now).2.1.rds[j]? = some d := by
  simp only [plan]
  rcases deleteObjectsPlan_cases ph s sel z c t now with ⟨calls, e, h⟩ | ⟨_, _, h⟩
  · rw [h]; exact hd
  · rw [h]
    simp [deleteResult, deleteFinish, hd, hnh]

/-- a new object starts at a multiple of the alignment requested for it -/
theorem C03_aligned (s : Img) (di : DI) (t : TOpt) (now : Int) (ha : 0 < di.alignment)
    (W : WF s) (hmax : s.h.dataOff + calculatedDataSize s.h s.rds ≤ maxI64)
    (hok : (plan sha ph s (.add di t) now).2.2 = .ok) :
    ∃ d, (plan sha ph s (.add di t) now).2.1.rds[findFreeSlot s.rds]? = some d ∧ d.used = true ∧
      di.alignment ∣ d.off ∧ s.h.dataOff + calculatedDataSize s.h s.rds ≤ d.off ∧
      d.off - (s.h.dataOff + calculatedDataSize s.h s.rds) < di.alignment := by
  simp only [plan] at *
  rcases addObjectPlan_cases sha ph s di t now with ⟨calls, e, h⟩ | ⟨calls, d, arch, hi, _, hw, h⟩
  · rw [h] at hok; cases hok
  · simp only at h
    rw [h]
    obtain ⟨off, hn, _, _, hu, _, hoff, _⟩ := writeDataObjectAt_ok sha _ di _ _ d calls hw
    have h0 : 0 ≤ s.h.dataOff + calculatedDataSize s.h s.rds := by
      have := calculatedDataSize_nonneg s.h s.rds
      have := W.doff; have := W.tabEnd; omega
    obtain ⟨hr, _, _⟩ := (nextAligned_spec _ di.alignment h0 hmax).2 ha
    obtain ⟨r1, r2, r3, _, _⟩ := hr off hn
    refine ⟨d, ?_, hu, by rw [hoff]; exact r3, by rw [hoff]; exact r1, by rw [hoff]; exact r2⟩
    simp only [commitObject]
    rw [List.getElem?_set_self hi]

/-- **zeroing delete**: after `DeleteObjects(..., OptDeleteZero(true))` every byte of every deleted
    object that is still inside the file is zero (with compaction the tail beyond the last
    surviving object is cut off instead) -/
theorem C03_zero_exact (s : Img) (W : WF s) (P : Placed s) (sel : Sel) (c : Bool) (t : TOpt) (now : Int)
    (hok : (step sha ph s (.del sel true c t) now).2 = .ok)
    (x : RawDesc) (hx : x ∈ s.rds) (hh : hit ph sel x = true) :
    ZeroAt (step sha ph s (.del sel true c t) now).1.st.buf x.off.toNat (x.off + x.size).toNat := by
  have hio : (step sha ph s (.del sel true c t) now).2 ≠ .err .io := by rw [hok]; simp
  obtain ⟨st', hcalls, hst, hres⟩ := step_store sha ph s (.del sel true c t) now (by simp) hio
  rw [hst]
  simp only [plan] at hcalls hres ⊢
  rcases deleteObjectsPlan_cases ph s sel true c t now with ⟨calls, e, h⟩ | ⟨_, _, h⟩
  · rw [h] at hres; rw [hok] at hres; cases hres
  · rw [h] at hcalls
    simp only at hcalls
    have hxu : x.used = true := by simp only [hit, Bool.and_eq_true] at hh; exact hh.1
    obtain ⟨hlo, _⟩ := W.lo x hx hxu
    obtain ⟨hdat, _⟩ := P.inData x hx hxu
    unfold deletePre at hcalls
    simp only [List.append_assoc] at hcalls
    rw [calls_append] at hcalls
    cases h1 : s.st.calls ((s.rds.filter (hit ph sel)).flatMap (zeroCalls true)) with
    | none => simp [h1] at hcalls
    | some s1 =>
      simp only [h1] at hcalls
      have hz1 := zeroCalls_zero _ x (List.mem_filter.mpr ⟨hx, hh⟩) hlo s.st s1 h1
      refine calls_keep_zero _ _ _ s1 st' hz1 ?_ hcalls
      apply callsKeepZero_append
      · cases c with
        | false => trivial
        | true => simp only [↓reduceIte]; exact resize_keeps _ _ _ _ _
      · intro st2
        apply callsKeepZero_of_safe
        apply flush_safe
        · have hdoff : (deleteResult ph s sel c (resolveTime s t now)).h.doff = s.h.doff := by
            have := hdrAfterDelete_doff s.h (s.rds.filter (hit ph sel))
            cases c <;> simp [deleteResult, deleteFinish, this]
          rw [hdoff]; exact W.doff
        · have hdoff : (deleteResult ph s sel c (resolveTime s t now)).h.doff = s.h.doff := by
            have := hdrAfterDelete_doff s.h (s.rds.filter (hit ph sel))
            cases c <;> simp [deleteResult, deleteFinish, this]
          have hlen : (deleteResult ph s sel c (resolveTime s t now)).rds.length = s.rds.length := by
            simp [deleteResult, deleteFinish]
          rw [hdoff, hlen]
          have := W.tabEnd
          omega

/-- **compacting delete**: afterwards the file ends exactly at the end of the data section, which
    is the end of the last surviving object (or the data offset when none survives) -/
theorem C03_compact_end (s : Img) (W : WF s) (sel : Sel) (z : Bool) (t : TOpt) (now : Int)
    (hok : (step sha ph s (.del sel z true t) now).2 = .ok) :
    ((step sha ph s (.del sel z true t) now).1.st.buf.length : Int) =
      (step sha ph s (.del sel z true t) now).1.h.dataOff + (step sha ph s (.del sel z true t) now).1.h.dataSize ∧
    (step sha ph s (.del sel z true t) now).1.h.dataSize =
      calculatedDataSize (step sha ph s (.del sel z true t) now).1.h (step sha ph s (.del sel z true t) now).1.rds := by
  have hio : (step sha ph s (.del sel z true t) now).2 ≠ .err .io := by rw [hok]; simp
  obtain ⟨st', hcalls, hst, hres⟩ := step_store sha ph s (.del sel z true t) now (by simp) hio
  rw [hst]
  simp only [plan] at hcalls hres ⊢
  rcases deleteObjectsPlan_cases ph s sel z true t now with ⟨calls, e, h⟩ | ⟨_, _, h⟩
  · rw [h] at hres; rw [hok] at hres; cases hres
  · rw [h] at hcalls ⊢
    simp only at hcalls ⊢
    have hdoff : (deleteResult ph s sel true (resolveTime s t now)).h.doff = s.h.doff := by
      have := hdrAfterDelete_doff s.h (s.rds.filter (hit ph sel))
      simp [deleteResult, deleteFinish, this]
    have hdataOff : (deleteResult ph s sel true (resolveTime s t now)).h.dataOff = s.h.dataOff := by
      have := hdrAfterDelete_doff s.h (s.rds.filter (hit ph sel))
      simp [deleteResult, deleteFinish, this]
    have hlen : (deleteResult ph s sel true (resolveTime s t now)).rds.length = s.rds.length := by
      simp [deleteResult, deleteFinish]
    have hds : (deleteResult ph s sel true (resolveTime s t now)).h.dataSize =
        calculatedDataSize (deleteResult ph s sel true (resolveTime s t now)).h
          (deleteResult ph s sel true (resolveTime s t now)).rds := by
      simp [deleteResult, deleteFinish, calculatedDataSize]
    refine ⟨?_, hds⟩
    have hnn := calculatedDataSize_nonneg (deleteResult ph s sel true (resolveTime s t now)).h
      (deleteResult ph s sel true (resolveTime s t now)).rds
    rw [← hds] at hnn
    have h128 := W.doff
    have htab := W.tabEnd
    -- the end the store is resized to
    generalize hN : (deleteResult ph s sel true (resolveTime s t now)).h.dataOff +
      (deleteResult ph s sel true (resolveTime s t now)).h.dataSize = N at *
    have hNge : s.h.doff + 585 * s.rds.length ≤ N := by rw [← hN, hdataOff]; omega
    unfold deletePre at hcalls
    simp only [↓reduceIte, hN, List.append_assoc] at hcalls
    rw [calls_append] at hcalls
    cases h1 : s.st.calls ((s.rds.filter (hit ph sel)).flatMap (zeroCalls z)) with
    | none => simp [h1] at hcalls
    | some s1 =>
      simp only [h1] at hcalls
      have hla : lenAfter s.st ((s.rds.filter (hit ph sel)).flatMap (zeroCalls z)) = s1.buf.length := by
        unfold lenAfter
        rw [callsPrefix_of_calls s.st s1 _ h1]
      rw [hla] at hcalls
      simp only [Option.bind_some] at hcalls
      rw [calls_append] at hcalls
      -- resize: afterwards the store is exactly N bytes long
      have hrs : ∃ s2, s1.calls (resizeCalls s1.buf.length N) = some s2 ∧ (s2.buf.length : Int) = N := by
        unfold resizeCalls
        by_cases hc : N ≤ (s1.buf.length : Int)
        · simp only [hc, ↓reduceIte, List.cons_append, List.nil_append, Store.calls, Store.call, Store.seekEnd,
            Store.truncate, show ¬ N < 0 by omega]
          cases hbe : s1.be with
          | buf =>
            have : ¬ N.toNat > s1.buf.length := by omega
            simp only [this, ↓reduceIte]
            exact ⟨_, rfl, by simp; omega⟩
          | file => exact ⟨_, rfl, by simp; omega⟩
        · simp only [hc, ↓reduceIte, List.cons_append, List.nil_append, Store.calls, Store.call, Store.seekEnd]
          have hne : (zeros (N - s1.buf.length).toNat).isEmpty = false := by
            have : 0 < (N - s1.buf.length).toNat := by omega
            cases hz : zeros (N - s1.buf.length).toNat with
            | nil => simp [zeros] at hz; omega
            | cons => rfl
          have hw : ({ s1 with pos := s1.buf.length } : Store).write (zeros (N - s1.buf.length).toNat) =
              { s1 with buf := writeAt s1.buf s1.buf.length (zeros (N - s1.buf.length).toNat),
                        pos := s1.buf.length + (zeros (N - s1.buf.length).toNat).length } := by
            cases hbe : s1.be <;> simp only [Store.write, hbe, hne, Bool.false_eq_true, ↓reduceIte]
          rw [hw]
          exact ⟨_, rfl, by simp only [writeAt_length, zeros_length]; omega⟩
      obtain ⟨s2, hs2, hl2⟩ := hrs
      rw [hs2] at hcalls
      simp only [Option.bind_some] at hcalls
      -- the flush stays inside those N bytes
      have h0 : ¬ (deleteResult ph s sel true (resolveTime s t now)).h.doff < 0 := by rw [hdoff]; omega
      simp only [flushCalls, writeDescriptorsCalls, writeHeaderCalls, List.cons_append, List.nil_append,
        Store.calls, Store.call, Store.seekStart, h0, ↓reduceIte, show ¬ (0 : Int) < 0 by omega,
        Option.some.injEq] at hcalls
      subst hcalls
      have lw : ∀ (st : Store) (pos : Nat) (p : Bytes), pos + p.length ≤ st.buf.length →
          (({ st with pos := pos } : Store).write p).buf.length = st.buf.length := by
        intro st pos p hp
        cases hbe : st.be <;> simp only [Store.write, hbe]
        · simp; omega
        · split
          · rfl
          · simp; omega
      rw [lw, lw]
      · exact hl2
      · simp [encTable_length, hlen, hdoff]; omega
      · rw [lw]
        · simp [encHdr_length]; omega
        · simp [encTable_length, hlen, hdoff]; omega

end Sif.C03
