/-
  Props/C03.lean — Object regions never overlap or escape; bystanders are never disturbed.
  Property theorems only (helpers: Proofs/{Create,Frame,Place,Placed,CreateWF}.lean).
-/
import SifVerif.Proofs.CreateWF
namespace Sif.C03

variable (sha : Bytes → Bytes) (ph : Bytes → Option Bytes)

/-- Total specification of the alignment arithmetic on all of int64 ≥ 0 and every alignment:
    non-positive alignment returns the offset; otherwise the result is the least multiple of the
    alignment at or after the offset, it is < offset + alignment, it fits in int64, and the only
    error is `errAlignmentOverflow`, raised exactly when no such multiple fits in int64. -/
theorem C03_nextAligned (off a : Int) (h0 : 0 ≤ off) (hmax : off ≤ maxI64) :
    (a ≤ 0 → nextAligned off a = .ok off) ∧
    (0 < a →
      (∀ r, nextAligned off a = .ok r →
          off ≤ r ∧ r - off < a ∧ a ∣ r ∧ r ≤ maxI64 ∧ ∀ r', off ≤ r' → a ∣ r' → r ≤ r') ∧
      (nextAligned off a = .error .alignmentOverflow ↔ ∀ r', off ≤ r' → a ∣ r' → maxI64 < r') ∧
      (∀ e, nextAligned off a = .error e → e = .alignmentOverflow)) :=
  nextAligned_spec off a h0 hmax

/-- an image created by the library, with any options and initial objects, is correctly placed:
    live regions pairwise disjoint, after the table, inside the data section and the file -/
theorem C03_created (be : Backend) (co : CreateOpts) (hcap : 0 ≤ co.capacity) (hdoff : 128 ≤ co.doff)
    (h : (createContainerPlan sha ph be co).2.2 = .ok) :
    ∃ st', (emptyStore be).calls (createContainerPlan sha ph be co).1 = some st' ∧
      WF { (createContainerPlan sha ph be co).2.1 with st := st' } ∧
      Placed { (createContainerPlan sha ph be co).2.1 with st := st' } :=
  let ⟨st', h1, h2, h3, _⟩ := createContainerPlan_ok sha ph be co hcap hdoff trivial h
  ⟨st', h1, h2, h3⟩

/-- every operation preserves the placement invariant … -/
theorem C03_preserved (s : Img) (W : WF s) (P : Placed s) (R : Ranges s) (op : Op) (now : Int)
    (hio : (step sha ph s op now).2 ≠ .err .io) : Placed (step sha ph s op now).1 :=
  Placed_step sha ph s W P R op now hio

/-- … hence it holds at every point of every history from any well-formed start -/
theorem C03_history (s : Img) (ops : List (Op × Int)) (W : WF s) (P : Placed s)
    (hR : ∀ k, Ranges (runOps sha ph s (ops.take k)))
    (hio : ∀ k op now, ops[k]? = some (op, now) →
      (step sha ph (runOps sha ph s (ops.take k)) op now).2 ≠ .err .io) :
    WF (runOps sha ph s ops) ∧ Placed (runOps sha ph s ops) := by
  induction ops generalizing s with
  | nil => exact ⟨W, P⟩
  | cons x rest ih =>
    obtain ⟨op, now⟩ := x
    simp only [runOps]
    have R0 : Ranges s := by simpa [runOps] using hR 0
    have hio0 := hio 0 op now (by simp)
    simp only [List.take_zero, runOps] at hio0
    apply ih
    · exact WF_step sha ph s W R0 op now hio0
    · exact Placed_step sha ph s W P R0 op now hio0
    · intro k; simpa [runOps] using hR (k + 1)
    · intro k op' now' hk
      simpa [runOps] using hio (k + 1) op' now' (by simpa using hk)

/-- the descriptor table lies where the header says, after the header and before the data
    section, and the bytes there are exactly the encoding of the in-memory table -/
theorem C03_table (s : Img) (W : WF s) :
    128 ≤ s.h.doff ∧ s.h.doff + 585 * s.rds.length ≤ s.h.dataOff ∧
    slice s.st.buf s.h.doff.toNat (585 * s.rds.length) = encTable s.rds ∧
    ∀ d ∈ s.rds, d.used = true → 0 ≤ d.off ∧ 0 ≤ d.size :=
  ⟨W.doff, W.tabEnd, W.sync.htab, W.lo⟩

/-- **bystanders**: adding, deleting, zeroing, compacting, or editing one object never changes a
    byte of any other live object's data region (and keeps it inside the file) -/
theorem C03_frame (s : Img) (W : WF s) (P : Placed s) (R : Ranges s) (op : Op) (now : Int)
    (i : Nat) (d : RawDesc) (hd : s.rds[i]? = some d) (hu : d.used = true)
    (hsv : (plan sha ph s op now).2.2 = .ok → survives ph op d)
    (hio : (step sha ph s op now).2 ≠ .err .io) :
    objContent (step sha ph s op now).1.st d = objContent s.st d ∧
    (0 < d.size → d.off + d.size ≤ (step sha ph s op now).1.st.buf.length) :=
  step_frame sha ph s W P R op now i d hd hu hsv hio

/-- … nor a byte of its descriptor: slots other than the one `AddObject` fills are unchanged -/
theorem C03_frame_desc_add (s : Img) (di : DI) (t : TOpt) (now : Int) (j : Nat)
    (hj : j ≠ findFreeSlot s.rds) :
    (plan sha ph s (.add di t) now).2.1.rds[j]? = s.rds[j]? := by
  simp only [plan]
  rcases addObjectPlan_cases sha ph s di t now with ⟨calls, e, h⟩ | ⟨calls, d, arch, _, _, _, h⟩
  · rw [h]
  · simp only at h
    rw [h]
    simp only [commitObject]
    exact List.getElem?_set_ne (Ne.symm hj)

/-- … and a delete leaves every unselected descriptor untouched, slot by slot -/
theorem C03_frame_desc_del (s : Img) (sel : Sel) (z c : Bool) (t : TOpt) (now : Int) (j : Nat)
    (d : RawDesc) (hd : s.rds[j]? = some d) (hnh : hit ph sel d = false) :
    (plan sha ph s (.del sel z c t) now).2.1.rds[j]? = some d := by
  simp only [plan]
  rcases deleteObjectsPlan_cases ph s sel z c t now with ⟨calls, e, h⟩ | ⟨_, _, h⟩
  · rw [h]; exact hd
  · rw [h]
    simp [deleteResult, deleteFinish, hd, hnh]

/-- a new object starts at a multiple of the alignment requested for it -/
theorem C03_aligned (s : Img) (di : DI) (t : TOpt) (now : Int) (ha : 0 < di.alignment)
    (W : WF s) (hmax : s.h.dataOff + calculatedDataSize s.h s.rds ≤ maxI64)
    (hok : (plan sha ph s (.add di t) now).2.2 = .ok) :
    ∃ d, (plan sha ph s (.add di t) now).2.1.rds[findFreeSlot s.rds]? = some d ∧ d.used = true ∧
      di.alignment ∣ d.off ∧ s.h.dataOff + calculatedDataSize s.h s.rds ≤ d.off ∧
      d.off - (s.h.dataOff + calculatedDataSize s.h s.rds) < di.alignment := by
  simp only [plan] at *
  rcases addObjectPlan_cases sha ph s di t now with ⟨calls, e, h⟩ | ⟨calls, d, arch, hi, _, hw, h⟩
  · rw [h] at hok; cases hok
  · simp only at h
    rw [h]
    obtain ⟨off, hn, _, _, hu, _, hoff, _⟩ := writeDataObjectAt_ok sha _ di _ _ d calls hw
    have h0 : 0 ≤ s.h.dataOff + calculatedDataSize s.h s.rds := by
      have := calculatedDataSize_nonneg s.h s.rds
      have := W.doff; have := W.tabEnd; omega
    obtain ⟨hr, _, _⟩ := (nextAligned_spec _ di.alignment h0 hmax).2 ha
    obtain ⟨r1, r2, r3, _, _⟩ := hr off hn
    refine ⟨d, ?_, hu, by rw [hoff]; exact r3, by rw [hoff]; exact r1, by rw [hoff]; exact r2⟩
    simp only [commitObject]
    rw [List.getElem?_set_self hi]

end Sif.C03
