import SifVerif.Proofs.Torn
import SifVerif.Proofs.Fault
import SifVerif.Proofs.RangesStep
import SifVerif.Proofs.CleanHistory
/-!
# C09 — interrupted modifications never damage other objects

Model of an interruption (`Proofs/Crash.lean`): `CrashOf st cs st'` — the store after any prefix
of whole calls of the operation's I/O plan `cs`, optionally followed by a byte prefix of the next
write (a torn write); `CrashBetween` — interruptions that fall between calls.  An injected I/O
failure at call `k` leaves the store of the `CrashBetween` point `k` (full failure) or a `CrashOf`
point (short write), and `runPlan` returns `.err .io` (`C09_error_returned`).

Proved for every well-formed, placed handle and every operation (add, delete with every option
combination, set-primary, set-metadata, set-OCI-digest; sign = a sequence of adds):

* `C09_bystander_content` — at **every** interruption, torn writes included, every object the
  operation does not delete keeps its content byte for byte and stays inside the file.
* `C09_data_phase` — every plan is a data phase followed by `writeDescriptors(); writeHeader()`;
  at every interruption of the data phase (torn data writes included) the file loads as exactly
  the old image: same header, same descriptors, the object being added absent.
* `C09_between_calls` — at every interruption between calls the file loads, and what loads is the
  old header and table, the old header with the new table, or the new header and table;
  `C09_bystander_descriptor`: a slot the operation leaves alone holds the same descriptor in all
  three.
* `C09_add_atomic` — between calls an added object is absent (its slot still free) or completely
  present: descriptor in place and content equal to the input.
* `C09_error_returned` — a failing call makes the operation return the I/O error.

* `C09_every_interruption` — **every** interruption, the descriptor-table and header writes torn
  at any byte included: the file loads and every slot the operation leaves alone holds the same
  descriptor, for images with *clean slots* (`CleanSlots`: every slot, in use or free, holds a
  non-negative offset and size).  Clean slots are preserved by every operation (`clean_plan`) and
  hold for everything the library writes (freed slots are zeroed).  Without that hypothesis the
  statement is false of the code — finding D11: a foreign image whose free slot holds leftover
  bytes with a negative offset, torn after its `used` byte, is refused by `LoadContainer`.
  The proof is byte-level (`Proofs/Torn.lean`): a byte mix of two encodings of non-negative int64
  values is non-negative (`decS8_mix_nonneg`), so a half-written descriptor stays loadable
  (`mix_loadable`); a mix of two headers that agree on magic, version, count, table offset and
  table size decodes to those values (`decHdr_mix`).
-/
namespace Sif

variable (sha : Bytes → Bytes) (ph : Bytes → Option Bytes)

/-- **C09, content**: whatever prefix of the operation's calls reached the store, and however the
    last write was torn, every surviving object's bytes are untouched. -/
theorem C09_bystander_content (s : Img) (W : WF s) (P : Placed s) (op : Op) (now : Int)
    (i : Nat) (d : RawDesc) (hd : s.rds[i]? = some d) (hu : d.used = true)
    (hsv : (plan sha ph s op now).2.2 = .ok → survives ph op d)
    (st' : Store) (hc : CrashOf s.st (plan sha ph s op now).1 st') :
    objContent st' d = objContent s.st d ∧ (0 < d.size → d.off + d.size ≤ st'.buf.length) := by
  have hmem : d ∈ s.rds := List.mem_of_getElem? hd
  obtain ⟨h0, hs0⟩ := W.lo d hmem hu
  by_cases hsz : 0 < d.size
  · have hsafe := plan_safe sha ph s W P op now i d hd hu hsz hsv
    have hinF := P.inFile d hmem hu hsz
    have hlh : regLo d ≤ regHi d := by unfold regLo regHi; omega
    obtain ⟨f1, f2⟩ := crash_frame (regLo d) (regHi d) hlh _ s.st st' (by unfold regHi; omega) hsafe hc
    refine ⟨?_, fun _ => by unfold regHi at f1; omega⟩
    rw [objContent_eq_slice _ d h0 hs0, objContent_eq_slice _ d h0 hs0, f2]
  · have : d.size = 0 := by omega
    refine ⟨?_, fun h => absurd h hsz⟩
    simp [objContent, this, readAt]

/-- header and table regions untouched ⇒ still synced with the old header and table -/
theorem synced_of_frames (s : Img) (W : WF s) (buf : Bytes)
    (hh : 128 ≤ buf.length ∧ slice buf 0 (128 - 0) = slice s.st.buf 0 (128 - 0))
    (ht : s.rds ≠ [] → s.h.doff.toNat + 585 * s.rds.length ≤ buf.length ∧
      slice buf s.h.doff.toNat (s.h.doff.toNat + 585 * s.rds.length - s.h.doff.toNat) =
        slice s.st.buf s.h.doff.toNat (s.h.doff.toNat + 585 * s.rds.length - s.h.doff.toNat)) :
    SyncedAt s.h s.rds buf := by
  have S := W.sync
  refine ⟨hh.1, ?_, fun hne => (ht hne).1, ?_⟩
  · have := hh.2; simp only [Nat.sub_zero] at this; rw [this]; exact S.hhdr
  · by_cases hne : s.rds = []
    · simp [hne, slice]
    · have := (ht hne).2
      simp only [Nat.add_sub_cancel_left] at this
      rw [this]; exact S.htab

/-- a store synced with a valid header and table loads as that header and table -/
theorem loads_of_synced (h : Hdr) (rds : List RawDesc) (st : Store) (S : SyncedAt h rds st.buf)
    (hv : h.Valid) (hm : h.magic = hdrMagic) (hver : h.version = curVersion)
    (ht : h.dtotal = rds.length) (hd : 0 ≤ h.doff) (hs : (585 * rds.length : Int) ≤ h.dsize)
    (dv : ∀ d ∈ rds, d.Valid) (dl : ∀ d ∈ rds, loadable d = true) (nov : h.doff + h.dsize ≤ maxI64) :
    loadContainer st = .ok { h := h, rds := rds, minIDs := populateMinIDs rds, st := st } :=
  loadContainer_ok st h rds ⟨hv, hm, hver, ht, hd, hs, S.hlen, S.hhdr, S.tlen, S.htab, dv, dl, nov⟩

theorem loads_old (s : Img) (W : WF s) (R : Ranges s) (st : Store) (S : SyncedAt s.h s.rds st.buf) :
    loadContainer st = .ok { h := s.h, rds := s.rds, minIDs := populateMinIDs s.rds, st := st } :=
  loads_of_synced s.h s.rds st S R.hv W.magic W.version W.total (by have := W.doff; omega) W.dsize R.dv
    (WF.all_loadable s W) (by
      have h1 := W.tabRegion
      have h2 := R.hv.dataOff
      unfold I64 at h2; unfold maxI64; omega)

/-- the metadata regions of a well-formed handle, as `crash_frame`/`calls_frame` want them -/
theorem meta_regions (s : Img) (W : WF s) :
    (128 ≤ s.st.buf.length ∧ ((128 : Nat) : Int) ≤ s.h.dataOff) ∧
    (s.rds ≠ [] → s.h.doff.toNat + 585 * s.rds.length ≤ s.st.buf.length ∧
      ((s.h.doff.toNat + 585 * s.rds.length : Nat) : Int) ≤ s.h.dataOff) := by
  have h1 := W.doff
  have h2 := W.tabEnd
  refine ⟨⟨W.sync.hlen, by omega⟩, fun hne => ⟨W.sync.tlen hne, by omega⟩⟩

/-- **C09, data phase**: every plan is a data phase followed by nothing or by the final flush;
    at every interruption of the data phase — torn data writes included — the file loads as
    exactly the image before the operation. -/
theorem C09_data_phase (s : Img) (W : WF s) (P : Placed s) (R : Ranges s) (op : Op) (now : Int) :
    ∃ pre post, (plan sha ph s op now).1 = pre ++ post ∧
      (post = [] ∨ post = flushCalls (plan sha ph s op now).2.1) ∧
      ∀ st', CrashOf s.st pre st' →
        loadContainer st' = .ok { h := s.h, rds := s.rds, minIDs := populateMinIDs s.rds, st := st' } := by
  obtain ⟨pre, post, hsplit, hsafe, hpost⟩ := plan_pre_safe sha ph s W P op now
  refine ⟨pre, post, hsplit, ?_, fun st' hc => ?_⟩
  · rcases hpost with ⟨h, _⟩ | ⟨_, h, _⟩
    · exact Or.inl h
    · exact Or.inr h
  · obtain ⟨⟨a1, a2⟩, ht⟩ := meta_regions s W
    apply loads_old s W R
    apply synced_of_frames s W
    · exact crash_frame 0 128 (by omega) pre s.st st' a1 (hsafe 0 128 (by omega) a1 a2) hc
    · intro hne
      obtain ⟨b1, b2⟩ := ht hne
      exact crash_frame _ _ (by omega) pre s.st st' b1 (hsafe _ _ (by omega) b1 b2) hc

/-- the flush phase: from a store still synced with the old header and table, an interruption of
    `writeDescriptors(); writeHeader()` between calls loads as old/old, old/new or new/new -/
theorem flush_phase_loads (s : Img) (W : WF s) (R : Ranges s) (s' : Img) (M' : WFmem s') (Rn : Ranges s')
    (hdd : s'.h.doff = s.h.doff) (hll : s'.rds.length = s.rds.length) (s1 st' : Store)
    (S1 : SyncedAt s.h s.rds s1.buf) (h2 : CrashBetween s1 (flushCalls s') st') :
    ∃ h rds, loadContainer st' = .ok { h := h, rds := rds, minIDs := populateMinIDs rds, st := st' } ∧
      (h = s.h ∧ rds = s.rds ∨ rds = s'.rds ∧ (h = s.h ∨ h = s'.h)) := by
  have dl' : ∀ d ∈ s'.rds, loadable d = true := by
    intro d hd
    unfold loadable
    cases hu : d.used with
    | false => rfl
    | true =>
      obtain ⟨h1, h2⟩ := M'.lo d hd hu
      have a : decide (d.off < 0) = false := by simp; omega
      have b : decide (d.size < 0) = false := by simp; omega
      simp [a, b]
  have nov : s.h.doff + s.h.dsize ≤ maxI64 := by
    have h1 := W.tabRegion
    have h2 := R.hv.dataOff
    unfold I64 at h2; unfold maxI64; omega
  rcases flush_crash s.h s.rds _ s1 st' S1 W.doff hdd hll h2 with S | S | S
  · exact ⟨s.h, s.rds, loads_old s W R st' S, Or.inl ⟨rfl, rfl⟩⟩
  · refine ⟨s.h, _, ?_, Or.inr ⟨rfl, Or.inl rfl⟩⟩
    exact loads_of_synced s.h _ st' S R.hv W.magic W.version (by rw [W.total, hll])
      (by have := W.doff; omega) (by rw [hll]; exact W.dsize) Rn.dv dl' nov
  · refine ⟨_, _, ?_, Or.inr ⟨rfl, Or.inr rfl⟩⟩
    exact loads_of_synced _ _ st' S Rn.hv M'.magic M'.version M'.total (by have := M'.doff; omega)
      M'.dsize Rn.dv dl' (by
        have h1 := M'.tabRegion
        have h2 := Rn.hv.dataOff
        unfold I64 at h2; unfold maxI64; omega)

/-- **C09, between calls**: at every interruption that falls between calls the file loads, as
    the old image, the old header with the new table, or the new image. -/
theorem C09_between_calls (s : Img) (W : WF s) (P : Placed s) (R : Ranges s) (op : Op) (now : Int)
    (R' : (plan sha ph s op now).2.2 = .ok → Ranges (plan sha ph s op now).2.1)
    (st' : Store) (hc : CrashBetween s.st (plan sha ph s op now).1 st') :
    ∃ h rds, loadContainer st' = .ok { h := h, rds := rds, minIDs := populateMinIDs rds, st := st' } ∧
      (h = s.h ∧ rds = s.rds ∨
       (plan sha ph s op now).2.2 = .ok ∧ rds = (plan sha ph s op now).2.1.rds ∧
         (h = s.h ∨ h = (plan sha ph s op now).2.1.h)) := by
  obtain ⟨pre, post, hsplit, hsafe, hpost⟩ := plan_pre_safe sha ph s W P op now
  obtain ⟨⟨a1, a2⟩, ht⟩ := meta_regions s W
  rw [hsplit] at hc
  rcases crashBetween_append pre post s.st st' hc with h1 | ⟨s1, hs1, h2⟩
  · refine ⟨s.h, s.rds, ?_, Or.inl ⟨rfl, rfl⟩⟩
    apply loads_old s W R
    apply synced_of_frames s W
    · exact crash_frame 0 128 (by omega) pre s.st st' a1 (hsafe 0 128 (by omega) a1 a2) h1.toCrashOf
    · intro hne
      obtain ⟨b1, b2⟩ := ht hne
      exact crash_frame _ _ (by omega) pre s.st st' b1 (hsafe _ _ (by omega) b1 b2) h1.toCrashOf
  · -- all of the data phase ran
    have S1 : SyncedAt s.h s.rds s1.buf := by
      apply synced_of_frames s W
      · exact calls_frame 0 128 (by omega) pre s.st s1 a1 (hsafe 0 128 (by omega) a1 a2) hs1
      · intro hne
        obtain ⟨b1, b2⟩ := ht hne
        exact calls_frame _ _ (by omega) pre s.st s1 b1 (hsafe _ _ (by omega) b1 b2) hs1
    rcases hpost with ⟨hp, _⟩ | ⟨hok, hp, hdd, hll⟩
    · subst hp
      cases h2
      exact ⟨s.h, s.rds, loads_old s W R _ S1, Or.inl ⟨rfl, rfl⟩⟩
    · subst hp
      exact flush_phase_loads s W R _ (plan_mem sha ph s (WF.mem s W) op now hok) (R' hok) hdd hll s1 st' S1 h2
        |>.imp fun h => Exists.imp fun rds => And.imp_right (Or.imp_right fun x => ⟨hok, x⟩)

/-- **C09, descriptors of bystanders**: a slot the operation leaves alone holds the same
    descriptor in whatever loads after an interruption between calls. -/
theorem C09_bystander_descriptor (s : Img) (W : WF s) (P : Placed s) (R : Ranges s) (op : Op) (now : Int)
    (R' : (plan sha ph s op now).2.2 = .ok → Ranges (plan sha ph s op now).2.1)
    (i : Nat) (d : RawDesc) (hd : s.rds[i]? = some d)
    (hkeep : (plan sha ph s op now).2.2 = .ok → (plan sha ph s op now).2.1.rds[i]? = some d)
    (st' : Store) (hc : CrashBetween s.st (plan sha ph s op now).1 st') :
    ∃ s2, loadContainer st' = .ok s2 ∧ s2.rds[i]? = some d := by
  obtain ⟨h, rds, hl, hcase⟩ := C09_between_calls sha ph s W P R op now R' st' hc
  refine ⟨_, hl, ?_⟩
  rcases hcase with ⟨_, h2⟩ | ⟨hok, h2, _⟩
  · simp only [h2]; exact hd
  · simp only [h2]; exact hkeep hok

/-- **C09, add is atomic between calls**: after an interruption of an accepted add that falls
    between calls, the file loads and the new object is absent — the table is the old one, its
    slot still free — or completely present: its descriptor is in its slot and its content in the
    file equals the input, byte for byte. -/
theorem C09_add_atomic (s : Img) (W : WF s) (P : Placed s) (R : Ranges s) (di : DI) (t : TOpt) (now : Int)
    (hok : (plan sha ph s (.add di t) now).2.2 = .ok)
    (R' : Ranges (plan sha ph s (.add di t) now).2.1)
    (st' : Store) (hc : CrashBetween s.st (plan sha ph s (.add di t) now).1 st') :
    ∃ s2, loadContainer st' = .ok s2 ∧
      (s2.rds = s.rds ∨
       ∃ d, s2.rds[findFreeSlot s.rds]? = some d ∧ d.used = true ∧ d.id = findFreeSlot s.rds + 1 ∧
         d.size = di.content.length ∧ objContent st' d = di.content) := by
  have hM := plan_mem sha ph s (WF.mem s W) (.add di t) now hok
  simp only [plan] at hok R' hc hM
  rcases addObjectPlan_cases sha ph s di t now with ⟨calls, e, h⟩ | ⟨calls, d, arch, hi, hp, hw, h⟩
  · rw [h] at hok; cases hok
  · simp only at h
    rw [h] at hc R' hM
    simp only at hc R' hM
    obtain ⟨off, hn, _, hcs, hud, hidd, hoffd, hszd, _⟩ := writeDataObjectAt_ok sha _ di _ _ d calls hw
    have hge := nextAligned_ge _ _ _ hn
    have hcalc := calculatedDataSize_nonneg s.h s.rds
    have h128 := W.doff
    have htab := W.tabEnd
    have hoff0 : ¬ off < 0 := by omega
    obtain ⟨⟨a1, a2⟩, ht⟩ := meta_regions s W
    -- the data phase stays off the header and the table
    have hsafe : ∀ lo hi : Nat, (hi : Int) ≤ s.h.dataOff → callsSafe lo hi s.st calls := by
      intro lo hi hdo
      rw [hcs]
      by_cases hp : di.content.isEmpty
      · simp only [hp, ↓reduceIte, List.append_nil]; exact safe_seek _ _ _ _ _ (fun _ => trivial)
      · simp only [hp, Bool.false_eq_true, ↓reduceIte, List.cons_append, List.nil_append]
        apply safe_seek_write
        · right; omega
        · intro _; trivial
    rcases crashBetween_append _ _ s.st st' hc with h1 | ⟨s1, hs1, h2⟩
    · refine ⟨{ h := s.h, rds := s.rds, minIDs := populateMinIDs s.rds, st := st' }, ?_, Or.inl rfl⟩
      apply loads_old s W R
      apply synced_of_frames s W
      · exact crash_frame 0 128 (by omega) calls s.st st' a1 (hsafe 0 128 a2) h1.toCrashOf
      · intro hne
        obtain ⟨b1, b2⟩ := ht hne
        exact crash_frame _ _ (by omega) calls s.st st' b1 (hsafe _ _ b2) h1.toCrashOf
    · have S1 : SyncedAt s.h s.rds s1.buf := by
        apply synced_of_frames s W
        · exact calls_frame 0 128 (by omega) calls s.st s1 a1 (hsafe 0 128 a2) hs1
        · intro hne
          obtain ⟨b1, b2⟩ := ht hne
          exact calls_frame _ _ (by omega) calls s.st s1 b1 (hsafe _ _ b2) hs1
      obtain ⟨hh, rds, hl, hcase⟩ := flush_phase_loads s W R _ hM R' (by simp [commitObject])
        (by simp [commitObject]) s1 st' S1 h2
      refine ⟨_, hl, ?_⟩
      rcases hcase with ⟨_, h3⟩ | ⟨h3, _⟩
      · exact Or.inl h3
      · right
        refine ⟨d, ?_, hud, by simpa using hidd, hszd, ?_⟩
        · simp only [h3, commitObject]; exact List.getElem?_set_self hi
        · -- the content was written before the table; the flush does not touch it
          rw [objContent_eq_slice _ d (by rw [hoffd]; omega) (by rw [hszd]; omega)]
          have hlo : regLo d = off.toNat := by unfold regLo; rw [hoffd]
          have hlen : regHi d - regLo d = di.content.length := by unfold regHi regLo; rw [hoffd, hszd]; omega
          by_cases he : di.content.isEmpty
          · simp only [List.isEmpty_iff] at he
            rw [hlen, he]; simp [slice]
          · have hne : di.content.isEmpty = false := by simpa using he
            rw [hcs] at hs1
            simp only [hne, Bool.false_eq_true, ↓reduceIte, List.cons_append, List.nil_append] at hs1
            simp only [Store.calls, Store.call, Store.seekStart, hoff0, ↓reduceIte, Option.some.injEq] at hs1
            have hw2 : ({ s.st with pos := off.toNat } : Store).write di.content =
                { s.st with buf := writeAt s.st.buf off.toNat di.content,
                            pos := off.toNat + di.content.length } := by
              cases hbe : s.st.be <;> simp [Store.write, hbe, hne]
            rw [hw2] at hs1
            subst hs1
            have hlh : regLo d ≤ regHi d := by unfold regLo regHi; omega
            have hfs : callsSafe (regLo d) (regHi d)
                { s.st with buf := writeAt s.st.buf off.toNat di.content,
                            pos := off.toNat + di.content.length }
                (flushCalls { commitObject s (findFreeSlot s.rds) d arch (calculatedDataSize s.h s.rds) with
                  h := { (commitObject s (findFreeSlot s.rds) d arch (calculatedDataSize s.h s.rds)).h with
                    mtime := resolveTime s t now } }) := by
              apply flush_safe
              · simpa [commitObject] using h128
              · simp only [commitObject, List.length_set]; unfold regLo; omega
            obtain ⟨_, f2⟩ := crash_frame (regLo d) (regHi d) hlh _ _ st'
              (by simp only [writeAt_length]; unfold regHi; omega) hfs h2.toCrashOf
            rw [f2, hlen, hlo]
            exact slice_writeAt_same _ _ _

/-- the flush phase under **every** interruption, torn table and header writes included, for
    images whose slots are clean (`CleanSlots`: every slot, in use or free, holds a non-negative
    offset and size — true of everything the library writes; finding D11 is exactly its failure) -/
theorem flush_crash_full (s : Img) (W : WF s) (R : Ranges s) (s' : Img) (M' : WFmem s') (Rn : Ranges s')
    (hdd : s'.h.doff = s.h.doff) (hll : s'.rds.length = s.rds.length) (hds : s'.h.dsize = s.h.dsize)
    (hne : s.rds ≠ []) (Cold : CleanSlots s.rds) (Cnew : CleanSlots s'.rds)
    (s1 st' : Store) (S1 : SyncedAt s.h s.rds s1.buf) (hc : CrashOf s1 (flushCalls s') st') :
    ∃ s2, loadContainer st' = .ok s2 ∧
      ∀ (i : Nat) (d : RawDesc), s.rds[i]? = some d → s'.rds[i]? = some d → s2.rds[i]? = some d := by
  have h128 := W.doff
  have h0 : ¬ s'.h.doff < 0 := by omega
  have htl := S1.tlen hne
  -- interruptions between calls
  have between : ∀ st2, CrashBetween s1 (flushCalls s') st2 →
      ∃ s2, loadContainer st2 = .ok s2 ∧
        ∀ (i : Nat) (d : RawDesc), s.rds[i]? = some d → s'.rds[i]? = some d → s2.rds[i]? = some d := by
    intro st2 hb
    obtain ⟨h, rds, hl, hcase⟩ := flush_phase_loads s W R s' M' Rn hdd hll s1 st2 S1 hb
    refine ⟨_, hl, fun i d hd hd' => ?_⟩
    rcases hcase with ⟨_, e⟩ | ⟨e, _⟩
    · simp only [e]; exact hd
    · simp only [e]; exact hd'
  simp only [flushCalls, writeDescriptorsCalls, writeHeaderCalls, List.cons_append, List.nil_append] at hc between
  cases hc with
  | stop => exact between _ (.stop _ _)
  | next _ a1 _ _ _ c1 r1 =>
    have c1' := c1
    simp only [Store.call, Store.seekStart, h0, ↓reduceIte, Option.some.injEq] at c1'
    subst c1'
    cases r1 with
    | stop => exact between _ (.next _ _ _ _ _ c1 (.stop _ _))
    | torn _ _ _ _ j ct =>
      simp only [Store.call, Option.some.injEq] at ct
      subst ct
      rw [hdd]
      obtain ⟨hL, hT, hF⟩ := torn_write_buf s1 s.h.doff.toNat (encTable s'.rds) j
        (by rw [encTable_length, hll]; exact htl)
      obtain ⟨s2, hl, _, hb⟩ := torn_table_loads s W R s' Rn hll hne Cold Cnew s1 _ S1 j hL hT hF
      exact ⟨s2, hl, hb⟩
    | next _ a2 _ _ _ c2 r2 =>
      have c2' := c2
      simp only [Store.call, Option.some.injEq] at c2'
      subst c2'
      cases r2 with
      | stop => exact between _ (.next _ _ _ _ _ c1 (.next _ _ _ _ _ c2 (.stop _ _)))
      | next _ a3 _ _ _ c3 r3 =>
        have c3' := c3
        simp only [Store.call, Store.seekStart, show ¬ (0 : Int) < 0 by omega, ↓reduceIte,
          Option.some.injEq] at c3'
        subst c3'
        cases r3 with
        | stop => exact between _ (.next _ _ _ _ _ c1 (.next _ _ _ _ _ c2 (.next _ _ _ _ _ c3 (.stop _ _))))
        | torn _ _ _ _ j ct =>
          simp only [Store.call, Option.some.injEq] at ct
          subst ct
          have S2 := SyncedAt.table_written s.h s.rds s'.rds s1 S1 h128 hll
          rw [← hdd] at S2
          obtain ⟨hL, hT, hF⟩ := torn_write_buf
            (({ s1 with pos := s'.h.doff.toNat } : Store).write (encTable s'.rds)) 0 (encHdr s'.h) j
            (by have := S2.hlen; simp only [encHdr_length]; omega)
          obtain ⟨s2, hl, hr⟩ := torn_header_loads s W R s' M' Rn hdd hll hds hne _ _ S2 j hL hT hF
          exact ⟨s2, by simpa using hl, fun i d _ hd' => by rw [hr]; exact hd'⟩
        | next _ a4 _ _ _ c4 r4 =>
          cases r4 with
          | stop =>
            exact between _ (.next _ _ _ _ _ c1 (.next _ _ _ _ _ c2 (.next _ _ _ _ _ c3 (.next _ _ _ _ _ c4 (.stop _ _)))))

/-- **C09, every interruption**: for an image with clean slots, at every interruption of every
    operation — any prefix of its calls, the last write torn anywhere, the descriptor-table and
    header writes included — the file loads and every slot the operation leaves alone holds the
    same descriptor.  (`C09_bystander_content` adds: and the same bytes.) -/
theorem C09_every_interruption (s : Img) (W : WF s) (P : Placed s) (R : Ranges s) (op : Op) (now : Int)
    (R' : (plan sha ph s op now).2.2 = .ok → Ranges (plan sha ph s op now).2.1)
    (hne : s.rds ≠ []) (Cold : CleanSlots s.rds)
    (st' : Store) (hc : CrashOf s.st (plan sha ph s op now).1 st') :
    ∃ s2, loadContainer st' = .ok s2 ∧
      ∀ (i : Nat) (d : RawDesc), s.rds[i]? = some d →
        ((plan sha ph s op now).2.2 = .ok → (plan sha ph s op now).2.1.rds[i]? = some d) →
        s2.rds[i]? = some d := by
  obtain ⟨pre, post, hsplit, hsafe, hpost⟩ := plan_pre_safe sha ph s W P op now
  obtain ⟨⟨a1, a2⟩, ht⟩ := meta_regions s W
  rw [hsplit] at hc
  have old_of : ∀ st2, SyncedAt s.h s.rds st2.buf → ∃ s2, loadContainer st2 = .ok s2 ∧
      ∀ (i : Nat) (d : RawDesc), s.rds[i]? = some d →
        ((plan sha ph s op now).2.2 = .ok → (plan sha ph s op now).2.1.rds[i]? = some d) →
        s2.rds[i]? = some d :=
    fun st2 S => ⟨_, loads_old s W R st2 S, fun i d hd _ => hd⟩
  rcases crash_append pre post s.st st' hc with h1 | ⟨s1, hs1, h2⟩
  · apply old_of
    apply synced_of_frames s W
    · exact crash_frame 0 128 (by omega) pre s.st st' a1 (hsafe 0 128 (by omega) a1 a2) h1
    · intro hne'
      obtain ⟨b1, b2⟩ := ht hne'
      exact crash_frame _ _ (by omega) pre s.st st' b1 (hsafe _ _ (by omega) b1 b2) h1
  · have S1 : SyncedAt s.h s.rds s1.buf := by
      apply synced_of_frames s W
      · exact calls_frame 0 128 (by omega) pre s.st s1 a1 (hsafe 0 128 (by omega) a1 a2) hs1
      · intro hne'
        obtain ⟨b1, b2⟩ := ht hne'
        exact calls_frame _ _ (by omega) pre s.st s1 b1 (hsafe _ _ (by omega) b1 b2) hs1
    rcases hpost with ⟨hp, _⟩ | ⟨hok, hp, hdd, hll⟩
    · subst hp
      cases h2
      exact old_of _ S1
    · subst hp
      obtain ⟨s2, hl, hb⟩ := flush_crash_full s W R _ (plan_mem sha ph s (WF.mem s W) op now hok) (R' hok)
        hdd hll (plan_dsize sha ph s op now) hne Cold (clean_plan sha ph s W Cold op now) s1 st' S1 h2
      exact ⟨s2, hl, fun i d hd hd' => hb i d hd (hd' hok)⟩

/-- the same with the representability of the operation's result discharged: it follows from
    the representability of the operation's *inputs* (`Op.InRange`) and "no live object ends beyond
    int64" (`Ranges_plan`) -/
theorem C09_every_interruption_inputs (s : Img) (W : WF s) (P : Placed s) (R : Ranges s) (E : EndsOK s)
    (op : Op) (now : Int) (hin : Op.InRange s op now)
    (hne : s.rds ≠ []) (Cold : CleanSlots s.rds)
    (st' : Store) (hc : CrashOf s.st (plan sha ph s op now).1 st') :
    ∃ s2, loadContainer st' = .ok s2 ∧
      ∀ (i : Nat) (d : RawDesc), s.rds[i]? = some d →
        ((plan sha ph s op now).2.2 = .ok → (plan sha ph s op now).2.1.rds[i]? = some d) →
        s2.rds[i]? = some d :=
  C09_every_interruption sha ph s W P R op now
    (fun _ => (Ranges_plan sha ph s W R E op now hin).1) hne Cold st' hc

/-- **from `CreateContainer` through any history, then an interruption anywhere**: creation options
    and every operation's inputs representable, capacity positive, no store failure so far — then
    whatever operation comes next (inputs representable) and wherever it is cut short (any prefix
    of its calls, the last write torn at any byte, table and header writes included), the file
    loads and every slot the operation leaves alone holds the same descriptor.  No hypothesis
    mentions an invariant of a state: `C09Inv` is established by creation and kept by every step
    (`Proofs/CleanHistory.lean`). -/
theorem C09_from_creation (be : Backend) (co : CreateOpts) (hin : co.InRange) (hcap : 0 < co.capacity)
    (hdoff : 128 ≤ co.doff) (h : (createContainerPlan sha ph be co).2.2 = .ok)
    (ops : List (Op × Int)) (op : Op) (now : Int) :
    ∃ st0, (emptyStore be).calls (createContainerPlan sha ph be co).1 = some st0 ∧
      let s0 : Img := { (createContainerPlan sha ph be co).2.1 with st := st0 }
      ((∀ k op now, ops[k]? = some (op, now) → Op.InRange (runOps sha ph s0 (ops.take k)) op now) →
       (∀ k op now, ops[k]? = some (op, now) →
          (step sha ph (runOps sha ph s0 (ops.take k)) op now).2 ≠ .err .io) →
       Op.InRange (runOps sha ph s0 ops) op now →
       ∀ st', CrashOf (runOps sha ph s0 ops).st (plan sha ph (runOps sha ph s0 ops) op now).1 st' →
         ∃ s2, loadContainer st' = .ok s2 ∧
           ∀ (i : Nat) (d : RawDesc), (runOps sha ph s0 ops).rds[i]? = some d →
             ((plan sha ph (runOps sha ph s0 ops) op now).2.2 = .ok →
               (plan sha ph (runOps sha ph s0 ops) op now).2.1.rds[i]? = some d) →
             s2.rds[i]? = some d) := by
  obtain ⟨st0, h1, I0⟩ := created_C09Inv sha ph be co hin hcap hdoff h
  refine ⟨st0, h1, ?_⟩
  intro s0 hi hio hop st' hc
  have I := C09Inv_history sha ph s0 ops I0 hi hio ops.length
  rw [List.take_length] at I
  exact C09_every_interruption_inputs sha ph _ I.wf I.placed I.ranges I.ends op now hop
    I.nonempty I.clean st' hc

/-- **C09, an I/O error is returned**: if some call of the plan fails, the operation's result is
    the I/O error, and the store is the one the calls before the failure left. -/
theorem C09_error_returned (p : List IOCall × Img × Res) (st : Store)
    (hfail : (st.callsPrefix p.1).2 = false) :
    (runPlan p st).2 = .err .io ∧ (runPlan p st).1.st = (st.callsPrefix p.1).1 := by
  unfold runPlan
  rcases h : st.callsPrefix p.1 with ⟨st', b⟩
  rw [h] at hfail
  simp only at hfail
  subst hfail
  simp

/-- the store a failing run leaves is an interruption between calls -/
theorem callsPrefix_crash (st : Store) (cs : List IOCall) : CrashBetween st cs (st.callsPrefix cs).1 := by
  induction cs generalizing st with
  | nil => exact .stop _ _
  | cons c cs ih =>
    simp only [Store.callsPrefix]
    cases h : st.call c with
    | none => exact .stop _ _
    | some s1 => exact .next st s1 _ c cs h (ih s1)

/-! ### a call of the backing store fails and the handle stays in use (Model/Fault.lean) -/

/-- **C09, a failed call, the file**: the file left by an operation one of whose calls the store
    failed (after `m` whole calls, `j` bytes into the failing one) is an interruption of the
    operation's plan — so everything proved above about interruptions holds of it: -/
theorem C09_failed_call_is_interruption (s : Img) (op : Op) (now : Int) (m j : Nat) (s' : Img)
    (h : faultStep sha ph s op now m j = some s')
    (hp : (s.st.callsPrefix ((plan sha ph s op now).1.take m)).2 = true) :
    CrashOf s.st (plan sha ph s op now).1 s'.st :=
  faultStep_crashOf sha ph s op now m j s' h hp

/-- … every object the operation does not delete keeps its bytes … -/
theorem C09_failed_call_content (s : Img) (W : WF s) (P : Placed s) (op : Op) (now : Int) (m j : Nat)
    (s' : Img) (h : faultStep sha ph s op now m j = some s')
    (hp : (s.st.callsPrefix ((plan sha ph s op now).1.take m)).2 = true)
    (i : Nat) (d : RawDesc) (hd : s.rds[i]? = some d) (hu : d.used = true)
    (hsv : (plan sha ph s op now).2.2 = .ok → survives ph op d) :
    objContent s'.st d = objContent s.st d ∧ (0 < d.size → d.off + d.size ≤ s'.st.buf.length) :=
  C09_bystander_content sha ph s W P op now i d hd hu hsv s'.st (faultStep_crashOf sha ph s op now m j s' h hp)

/-- … and the file still loads, every slot the operation leaves alone holding the same descriptor -/
theorem C09_failed_call_loads (s : Img) (W : WF s) (P : Placed s) (R : Ranges s) (op : Op) (now : Int)
    (R' : (plan sha ph s op now).2.2 = .ok → Ranges (plan sha ph s op now).2.1)
    (hne : s.rds ≠ []) (Cold : CleanSlots s.rds) (m j : Nat) (s' : Img)
    (h : faultStep sha ph s op now m j = some s')
    (hp : (s.st.callsPrefix ((plan sha ph s op now).1.take m)).2 = true) :
    ∃ s2, loadContainer s'.st = .ok s2 ∧
      ∀ (i : Nat) (d : RawDesc), s.rds[i]? = some d →
        ((plan sha ph s op now).2.2 = .ok → (plan sha ph s op now).2.1.rds[i]? = some d) →
        s2.rds[i]? = some d :=
  C09_every_interruption sha ph s W P R op now R' hne Cold s'.st (faultStep_crashOf sha ph s op now m j s' h hp)

/-- **C09, a failed call, the handle**: the handle's memory after the failure is that of the phase
    the failing call belongs to (add.go / delete.go / set.go update the handle between groups of
    calls), and the phases laid end to end are the plan (`phases_calls`): untouched while the data
    object is written, the object committed while the table is written, and so on -/
theorem C09_failed_call_handle (s : Img) (op : Op) (now : Int) (m j : Nat) (s' : Img)
    (h : faultStep sha ph s op now m j = some s') :
    ∃ p ∈ phases sha ph s op now, s'.h = p.mem.h ∧ s'.rds = p.mem.rds ∧ s'.minIDs = p.mem.minIDs :=
  faultStep_mem sha ph s op now m j s' h

/-- the hypotheses are met: SetMetadata on an image with one object — the store fails the table
    write (call 1) after 10 bytes; the handle then has the new metadata, the header its old time -/
def exFault : Img :=
  { h := { (default : Hdr) with dfree := 0, dtotal := 1, doff := 128, dsize := 585, dataOff := 713, mtime := 5 },
    rds := [{ zeroDesc with used := true, id := 1, dtype := dtGeneric }], minIDs := [(0, 1)],
    st := { be := .buf, buf := zeros 713, pos := 0 } }

example : ((faultStep (fun _ => []) (fun _ => none) exFault (.setMeta 1 (.raw [7]) (.at 9)) 0 1 10).map
    (fun s' => (s'.h.mtime, (s'.rds.getD 0 zeroDesc).mtime, s'.st.buf.length))) = some (5, 9, 713) := by
  decide +kernel

/-- **C09/C11, the next successful modification heals the file**: whatever an earlier failed call
    left — any handle `s`, its store in any state, no agreement between the two assumed — an
    operation that succeeds and writes at all leaves the header bytes and the table bytes equal
    to the encoding of the handle it ends with.  (Every accepted mutator ends with
    `writeDescriptors(); writeHeader()` from memory: `plan_shape`, `flush_synced`.) -/
theorem C09_next_success_heals (s : Img) (op : Op) (now : Int) (hne : op ≠ .reload)
    (hd : 128 ≤ s.h.doff) (hok : (step sha ph s op now).2 = .ok)
    (hw : (plan sha ph s op now).1 ≠ []) :
    Synced (step sha ph s op now).1 := by
  obtain ⟨st', hcalls, hs', hres⟩ := step_store sha ph s op now hne (by rw [hok]; simp)
  have hplanok : (plan sha ph s op now).2.2 = .ok := by rw [← hres]; exact hok
  rcases (plan_shape sha ph s op now).2 hplanok with ⟨hnil, _⟩ | ⟨pre, hsplit, hdoff, _⟩
  · exact absurd hnil hw
  · rw [hsplit, calls_append] at hcalls
    cases hpre : s.st.calls pre with
    | none => simp [hpre] at hcalls
    | some st1 =>
      simp only [hpre, Option.bind_some] at hcalls
      obtain ⟨st2, hfl, hsync⟩ := flush_synced (plan sha ph s op now).2.1 st1 (by rw [hdoff]; exact hd)
      rw [hfl] at hcalls
      cases hcalls
      rw [hs']
      exact hsync

theorem C09_phases_are_the_plan (s : Img) (op : Op) (now : Int) :
    Phase.allCalls (phases sha ph s op now) = (plan sha ph s op now).1 :=
  phases_calls sha ph s op now

end Sif
