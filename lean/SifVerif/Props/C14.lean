/-
  Props/C14.lean — The in-memory buffer backend behaves like a file.
  Property theorems only (helpers: Proofs/Store.lean, Proofs/Backend.lean).
-/
import SifVerif.Proofs.Backend
import SifVerif.Proofs.RangesStep
import SifVerif.Proofs.CreateRanges
import SifVerif.Proofs.CreateBackend
namespace Sif.C14

variable (sha : Bytes → Bytes) (ph : Bytes → Option Bytes)

/-- one call of a shape the library issues (absolute seek ≥ 0, non-empty write of any length at
    any position incl. past the end, truncation to at most the current length, seek to end) has
    the same effect and result on `sif.Buffer` and on a file -/
theorem C14_call (a b : Store) (h : a.sim b) (c : IOCall) (ok : callOK a c) :
    ∃ a' b', a.call c = some a' ∧ b.call c = some b' ∧ a'.sim b' := call_bisim a b h c ok

/-- … and so has every sequence of such calls, of any length -/
theorem C14_calls (cs : List IOCall) (a b : Store) (h : a.sim b) (ok : callsOK a cs) :
    ∃ a' b', a.calls cs = some a' ∧ b.calls cs = some b' ∧ a'.sim b' := calls_bisim cs a b h ok

/-- positioned reads (any offset, any length, incl. past the end) agree -/
theorem C14_read (a b : Store) (h : a.sim b) (off n : Nat) : readAt a.buf off n = readAt b.buf off n :=
  readAt_sim a b h off n

/-- every call the library issues on a well-formed image with capacity > 0 has such a shape: in
    particular it truncates only within the current length (repair of D3) -/
theorem C14_library_calls (s : Img) (W : WF s) (hne : s.rds ≠ []) (op : Op) (now : Int) :
    callsOK s.st (plan sha ph s op now).1 := plan_callsOK sha ph s W hne op now

/-- **any operation returns the same result and leaves byte-identical contents on both backends** -/
theorem C14_step (a b : Img) (S : ImgSim a b) (W : WF a) (hne : a.rds ≠ []) (op : Op) (now : Int) :
    (step sha ph a op now).2 = (step sha ph b op now).2 ∧
    ImgSim (step sha ph a op now).1 (step sha ph b op now).1 :=
  step_lockstep sha ph a b S W hne op now

/-- … along any history -/
theorem C14_history (a b : Img) (ops : List (Op × Int)) (S : ImgSim a b) (W : WF a) (hne : a.rds ≠ [])
    (hR : ∀ k, Ranges (runOps sha ph a (ops.take k)))
    (hio : ∀ k op now, ops[k]? = some (op, now) →
      (step sha ph (runOps sha ph a (ops.take k)) op now).2 ≠ .err .io) :
    ImgSim (runOps sha ph a ops) (runOps sha ph b ops) := by
  induction ops generalizing a b with
  | nil => exact S
  | cons x rest ih =>
    obtain ⟨op, now⟩ := x
    simp only [runOps]
    have R0 : Ranges a := by simpa [runOps] using hR 0
    have hio0 := hio 0 op now (by simp)
    simp only [List.take_zero, runOps] at hio0
    obtain ⟨_, S'⟩ := step_lockstep sha ph a b S W hne op now
    have W' := WF_step sha ph a W R0 op now hio0
    apply ih _ _ S' W'
    · intro he
      have := W'.total; have t0 := W.total
      have hmem : (step sha ph a op now).1.rds.length = a.rds.length := by
        by_cases hrl : op = .reload
        · subst hrl; simp only [step, WF.load a W R0]
        · obtain ⟨st', _, hs', _⟩ := step_store sha ph a op now hrl hio0
          rw [hs']
          obtain ⟨hrej, hacc⟩ := plan_shape sha ph a op now
          by_cases hok : (plan sha ph a op now).2.2 = .ok
          · rcases hacc hok with ⟨_, hs⟩ | ⟨_, _, _, hl⟩
            · simp [hs]
            · simpa using hl
          · simp [hrej hok]
      rw [he] at hmem
      exact hne (List.length_eq_zero_iff.mp hmem.symm)
    · intro k; simpa [runOps] using hR (k + 1)
    · intro k op' now' hk
      simpa [runOps] using hio (k + 1) op' now' (by simpa using hk)

/-- the same with hypotheses on what comes in from outside only (`Op.InRange`); `Ranges` of every
    state reached on the first backend follows (`Ranges_history`) -/
theorem C14_history_inputs (a b : Img) (ops : List (Op × Int)) (S : ImgSim a b) (W : WF a)
    (hne : a.rds ≠ []) (R : Ranges a) (E : EndsOK a)
    (hin : ∀ k op now, ops[k]? = some (op, now) → Op.InRange (runOps sha ph a (ops.take k)) op now)
    (hio : ∀ k op now, ops[k]? = some (op, now) →
      (step sha ph (runOps sha ph a (ops.take k)) op now).2 ≠ .err .io) :
    ImgSim (runOps sha ph a ops) (runOps sha ph b ops) :=
  C14_history sha ph a b ops S W hne (Ranges_history sha ph a ops W R E hin hio) hio

/-- `CreateContainer` with any initial objects answers the same and leaves byte-identical contents
    on a `sif.Buffer` and on a file, whenever the descriptor capacity is positive (capacity 0 is
    finding D8: `D8_capacity_zero`) -/
theorem C14_created (co : CreateOpts) (hcap : 0 < co.capacity) (hdoff : 0 ≤ co.doff) :
    (runPlan (createContainerPlan sha ph .buf co) (emptyStore .buf)).2 =
      (runPlan (createContainerPlan sha ph .file co) (emptyStore .file)).2 ∧
    ImgSim (runPlan (createContainerPlan sha ph .buf co) (emptyStore .buf)).1
      (runPlan (createContainerPlan sha ph .file co) (emptyStore .file)).1 :=
  createContainer_lockstep sha ph co hcap hdoff

/-- **from `CreateContainer` through any history, on both backends**: creation options and every
    operation's inputs representable, capacity positive, creation accepted, no store failure on the
    buffer run — then the two runs stay byte-identical with equal handles throughout.  No
    hypothesis mentions an invariant of a state. -/
theorem C14_from_creation (co : CreateOpts) (hin : co.InRange) (hcap : 0 < co.capacity)
    (hdoff : 128 ≤ co.doff) (h : (createContainerPlan sha ph .buf co).2.2 = .ok)
    (ops : List (Op × Int)) :
    let a := (runPlan (createContainerPlan sha ph .buf co) (emptyStore .buf)).1
    let b := (runPlan (createContainerPlan sha ph .file co) (emptyStore .file)).1
    (∀ k op now, ops[k]? = some (op, now) → Op.InRange (runOps sha ph a (ops.take k)) op now) →
    (∀ k op now, ops[k]? = some (op, now) →
      (step sha ph (runOps sha ph a (ops.take k)) op now).2 ≠ .err .io) →
    ImgSim (runOps sha ph a ops) (runOps sha ph b ops) := by
  intro a b hi hio
  have hcapU : co.capacity < maxU32 := by
    by_cases hc : co.capacity ≥ maxU32
    · unfold createContainerPlan at h; simp [hc] at h
    · omega
  obtain ⟨st', h1, W, _, _⟩ := createContainerPlan_ok sha ph .buf co (by omega) hdoff trivial h
  obtain ⟨R, E⟩ := createContainerPlan_ranges sha ph .buf co hin hcapU
  have ha : a = { (createContainerPlan sha ph .buf co).2.1 with st := st' } := by
    show (runPlan (createContainerPlan sha ph .buf co) (emptyStore .buf)).1 = _
    unfold runPlan
    rw [callsPrefix_of_calls _ st' _ h1]
  have S := (C14_created sha ph co hcap (by omega)).2
  have Wa : WF a := by rw [ha]; exact W
  have hne : a.rds ≠ [] := by
    intro he
    have hl := createContainerPlan_len sha ph .buf co hcapU
    rw [ha] at he
    simp only at he
    rw [he] at hl
    simp at hl
    omega
  exact C14_history_inputs sha ph a b ops S Wa hne (by rw [ha]; exact ⟨R.hv, R.dv⟩) (by rw [ha]; exact E) hi hio

/-! ### finding D8: the one excluded call shape really differs -/

/-- a zero-length write positioned past the end extends the buffer and not a file -/
theorem D8_witness :
    (({ be := .buf, buf := [1], pos := 3 } : Store).write []).buf = [1, 0, 0] ∧
    (({ be := .file, buf := [1], pos := 3 } : Store).write []).buf = [1] := by decide

/-- and the library issues it: `CreateContainer` with capacity 0 writes an empty descriptor
    table at offset 4096, so the buffer image is 4096 bytes long and the file image 128 -/
theorem D8_capacity_zero (opts : CreateOpts) (h : opts.capacity = 0) (hd : opts.doff = 4096)
    (hdis : opts.dis = []) :
    (runPlan (createContainerPlan sha ph .buf opts) (emptyStore .buf)).1.st.buf.length = 4096 ∧
    (runPlan (createContainerPlan sha ph .file opts) (emptyStore .file)).1.st.buf.length = 128 := by
  have hne : ∀ hh : Hdr, encHdr hh ≠ [] := encHdr_ne_nil
  simp [runPlan, createContainerPlan, h, hd, hdis, createObjects, writeDescriptorsCalls, writeHeaderCalls,
    Store.callsPrefix, Store.call, Store.seekStart, Store.write, emptyStore, maxU32, encTable, hne]

end Sif.C14
