import SifVerif.Generated.Facts
import SifVerif.Model.Siftool
import SifVerif.Props.C09
/-!
# C15 — siftool is a faithful front end to the library

`Model/Siftool.lean` is the argument translation of pkg/siftool and internal/app/siftool; below
it sits the library model.  Proved here:

* the translation tables are the ones in the Go source *now* (`cli_*` facts regenerated from
  `pkg/siftool/add.go`, `del.go`, `dump.go`, `info.go`, `setprim.go` on every run): data types,
  architectures, hash types (composed with the library's own `sifHashType`), SBOM formats, the
  three flags tested with `fs.Changed`, and the 32-bit decimal parse of every `<id>` argument;
* `C15_add_is_library_add`, `C15_del_is_library_delete`, `C15_setprim_is_library_setprim`: a
  mutating command is exactly: load the file, run the library operation with the translated
  arguments, leave the resulting bytes;
* `C15_id_32bit`: an `<id>` argument is accepted only if it is a decimal numeral below 2^32 —
  nothing wraps;
* `C15_failed_unchanged`: a mutating command that fails leaves a file that loads with the same
  header and the same descriptors, every object's content byte-identical (argument errors do not
  touch the file at all: `C15_argument_error_untouched`);
* `C15_read_only`: header/list/info/dump never change the file;
* `C15_add_then_dump`: after a successful `add`, `dump` of the new object's ID prints exactly the
  bytes of the object file, for every content.

The tie to the *binary* is the campaign: histories of real invocations of the siftool binary built
from the working tree, compared (exit status, dump output, the file's bytes and full view after
every command) with `Cli.run`; header/list/info output is compared with the library's accessors.
-/
namespace Sif.Cli
open Sif

variable (sha : Bytes → Bytes) (ph : Bytes → Option Bytes)

/-! ### the tables are the source's tables -/

theorem dataType_table :
    Gen.cli_dataType = (List.range 11).map (fun i => (toString (i + 1), toString (0x4001 + i))) ∧
    ∀ n : Int, 1 ≤ n → n ≤ 11 → cliDataType n = some (0x4000 + n) := by
  refine ⟨by decide, fun n h1 h2 => by simp [cliDataType, h1, h2]⟩

theorem arch_table : Gen.cli_arch = (List.range 12).map (fun i => (toString (i + 1), archNames.getD i "")) := by decide

theorem arch_fn : (List.range 15).map (fun i => cliArch (i : Nat)) =
    ["unknown", "386", "amd64", "arm", "arm64", "ppc64", "ppc64le", "mips", "mipsle", "mips64", "mips64le",
     "s390x", "riscv64", "unknown", "unknown"] := by decide

/-- `--signhash n` ↦ crypto.Hash ↦ (library) hash code `n`, for 1..5 -/
theorem hash_table : Gen.cli_hash = Gen.sif_hashType ∧
    Gen.cli_hash.map (fun p => (p.1, (Gen.sif_sifHashType.lookup p.2).getD "")) =
      [("1", "1"), ("2", "2"), ("3", "3"), ("4", "4"), ("5", "5")] := by decide

theorem sbom_table : Gen.cli_sbom = sbomNames.map (fun p => (p.1, toString p.2)) ∧
    [Gen.c_SBOMFormatCycloneDXJSON, Gen.c_SBOMFormatCycloneDXXML, Gen.c_SBOMFormatGitHubJSON, Gen.c_SBOMFormatSPDXJSON,
     Gen.c_SBOMFormatSPDXRDF, Gen.c_SBOMFormatSPDXTagValue, Gen.c_SBOMFormatSPDXYAML, Gen.c_SBOMFormatSyftJSON] =
      [1, 2, 3, 4, 5, 6, 7, 8] := by decide

/-- presence (not value) decides for exactly these flags; every `<id>` is parsed base 10, 32 bits -/
theorem changed_flags : Gen.cli_changed = ["link", "alignment", "filename"] := by decide
theorem id_parse : Gen.cli_parseUint = ["_,10,32", "_,10,32", "_,10,32", "_,10,32"] := by decide

theorem flag_decls : Gen.cli_flags =
    [("datatype", "Int", "0"), ("parttype", "Int32", "0"), ("partfs", "Int32", "0"), ("partarch", "Int32", "0"),
     ("signhash", "Int32", "0"), ("signentity", "String", ""), ("sbomformat", "String", ""),
     ("groupid", "Uint32", "0"), ("link", "Uint32", "0"), ("alignment", "Int", "0"), ("filename", "String", "")] := by
  decide

/-! ### what a command is -/

/-- an `<id>` argument is accepted only as a decimal numeral below 2^32 -/
theorem C15_id_32bit (t : Bytes) (n : Nat) (h : parseU32 t = some n) :
    n < 4294967296 ∧ t ≠ [] ∧ (∀ c ∈ t, 48 ≤ c ∧ c ≤ 57) ∧
    n = t.foldl (fun a c => a * 10 + (c.toNat - 48)) 0 := by
  unfold parseU32 at h
  split at h
  · cases h
  · split at h
    · rename_i hne hall
      dsimp only at h
      split at h
      · cases h
        rename_i hlt
        refine ⟨hlt, by intro e; simp [e] at hne, ?_, rfl⟩
        intro c hc
        have := List.all_eq_true.mp hall c hc
        simpa using this
      · cases h
    · cases h

/-- 2^32 + k is refused whatever `k` is (here: the numerals a wrapped parse would map to 1) -/
example : parseU32 [52, 50, 57, 52, 57, 54, 55, 50, 57, 55] = none ∧          -- "4294967297"
    parseU32 [52, 50, 57, 52, 57, 54, 55, 50, 57, 53] = some 4294967295 ∧    -- "4294967295"
    parseU32 [48, 48, 55] = some 7 ∧ parseU32 [45, 49] = none ∧ parseU32 [] = none := by   -- "007", "-1", ""
  decide

/-- `siftool add` = load; `NewDescriptorInput(type, file, translated options)`; `AddObject` -/
theorem C15_add_is_library_add (st : Store) (s : Img) (fl : AddFlags) (data : Bytes) (dt : Int)
    (opts : List DIOpt) (di : DI) (now : Int) (rnd : Bytes)
    (hdt : cliDataType fl.datatype = some dt) (ho : cliOptions dt fl = .ok opts)
    (hdi : newDescriptorInput dt opts data none = .ok di) (hl : loadContainer st = .ok s) :
    (run sha ph (some st) (.add fl (some data)) now rnd).file = some (step sha ph s (.add di .dflt) now).1.st ∧
    (run sha ph (some st) (.add fl (some data)) now rnd).ok = ((step sha ph s (.add di .dflt) now).2 == .ok) := by
  simp [run, runMut, runMut.libOpPre, runMut.go, libOp, hdt, ho, hdi, hl]

theorem C15_del_is_library_delete (st : Store) (s : Img) (arg : Bytes) (id : Nat) (now : Int) (rnd : Bytes)
    (ha : parseU32 arg = some id) (hl : loadContainer st = .ok s) :
    (run sha ph (some st) (.del arg) now rnd).file = some (step sha ph s (.del (.id id) false false .dflt) now).1.st ∧
    (run sha ph (some st) (.del arg) now rnd).ok = ((step sha ph s (.del (.id id) false false .dflt) now).2 == .ok) := by
  simp [run, runMut, runMut.go, libOp, ha, hl]

theorem C15_setprim_is_library_setprim (st : Store) (s : Img) (arg : Bytes) (id : Nat) (now : Int) (rnd : Bytes)
    (ha : parseU32 arg = some id) (hl : loadContainer st = .ok s) :
    (run sha ph (some st) (.setprim arg) now rnd).file = some (step sha ph s (.setPrim id .dflt) now).1.st ∧
    (run sha ph (some st) (.setprim arg) now rnd).ok = ((step sha ph s (.setPrim id .dflt) now).2 == .ok) := by
  simp [run, runMut, runMut.go, libOp, ha, hl]

/-- an argument error (bad data type, missing partition/signature/SBOM flags, bad fingerprint,
    unparsable or out-of-range `<id>`) leaves the file exactly as it was -/
theorem C15_argument_error_untouched (file : Option Store) (c : Cmd) (now : Int) (rnd : Bytes) (e : CliErr)
    (hc : match c with | .add .. | .del .. | .setprim .. => True | _ => False)
    (he : libOp c = .error e) :
    (run sha ph file c now rnd).file = file ∧ (run sha ph file c now rnd).ok = false := by
  cases c with
  | add fl content =>
    simp only [run, runMut]
    cases hp : runMut.libOpPre fl with
    | some e' => simp
    | none =>
      simp only [runMut.go, he]
      cases e <;> try simp
      cases file with
      | none => simp
      | some st => simp only; cases loadContainer st <;> simp
  | del arg =>
    simp only [run, runMut, runMut.go, he]
    cases e <;> try simp
    cases file with
    | none => simp
    | some st => simp only; cases loadContainer st <;> simp
  | setprim arg =>
    simp only [run, runMut, runMut.go, he]
    cases e <;> try simp
    cases file with
    | none => simp
    | some st => simp only; cases loadContainer st <;> simp
  | _ => exact absurd hc (by simp)

/-- the read-only commands return the file they were given -/
theorem C15_read_only (file : Option Store) (c : Cmd) (now : Int) (rnd : Bytes)
    (hc : match c with | .dump .. | .info .. | .header | .list => True | _ => False) :
    (run sha ph file c now rnd).file = file := by
  cases c with
  | new => exact absurd hc (by simp)
  | add => exact absurd hc (by simp)
  | del => exact absurd hc (by simp)
  | setprim => exact absurd hc (by simp)
  | dump arg =>
    simp only [run, runRead]
    cases file with
    | none => rfl
    | some st =>
      simp only
      cases loadContainer st with
      | error e => rfl
      | ok s =>
        simp only
        cases parseU32 arg with
        | none => rfl
        | some id => simp only; cases getDescriptor ph s [.id id] <;> rfl
  | info arg =>
    simp only [run, runRead]
    cases file with
    | none => rfl
    | some st =>
      simp only
      cases loadContainer st with
      | error e => rfl
      | ok s =>
        simp only
        cases parseU32 arg with
        | none => rfl
        | some id => simp only; cases getDescriptor ph s [.id id] <;> rfl
  | header =>
    simp only [run, runRead]
    cases file with
    | none => rfl
    | some st => simp only; cases loadContainer st <;> rfl
  | list =>
    simp only [run, runRead]
    cases file with
    | none => rfl
    | some st => simp only; cases loadContainer st <;> rfl

/-- **a failing library operation leaves the image as it was**: the file still loads, with the
    same header and descriptors, and every object's content is byte-identical -/
theorem C15_failed_unchanged (s : Img) (W : WF s) (P : Placed s) (R : Ranges s) (op : Op) (now : Int)
    (hne : op ≠ .reload) (hfail : (step sha ph s op now).2 ≠ .ok) (hio : (step sha ph s op now).2 ≠ .err .io) :
    loadContainer (step sha ph s op now).1.st =
      .ok { h := s.h, rds := s.rds, minIDs := populateMinIDs s.rds, st := (step sha ph s op now).1.st } ∧
    ∀ (i : Nat) (d : RawDesc), s.rds[i]? = some d → d.used = true →
      objContent (step sha ph s op now).1.st d = objContent s.st d := by
  obtain ⟨st', hcalls, hst, hres⟩ := step_store sha ph s op now hne hio
  have hrej : (plan sha ph s op now).2.2 ≠ .ok := by rw [← hres]; exact hfail
  refine ⟨?_, fun i d hd hu => ?_⟩
  · obtain ⟨pre, post, hsplit, hphase, hload⟩ := C09_data_phase sha ph s W P R op now
    obtain ⟨pre', post', hsplit', _, hpost'⟩ := plan_pre_safe sha ph s W P op now
    -- a rejected plan has no flush: all of it is data phase
    have hall : ∀ st2, CrashOf s.st (plan sha ph s op now).1 st2 →
        loadContainer st2 = .ok { h := s.h, rds := s.rds, minIDs := populateMinIDs s.rds, st := st2 } := by
      intro st2 hc
      obtain ⟨⟨a1, a2⟩, ht⟩ := meta_regions s W
      have hsafeAll : ∀ lo hi : Nat, lo ≤ hi → hi ≤ s.st.buf.length → (hi : Int) ≤ s.h.dataOff →
          callsSafe lo hi s.st (plan sha ph s op now).1 := by
        intro lo hi h1 h2 h3
        rcases plan_rejected_calls sha ph s op now hrej with hc0 | ⟨off, p, hge, hc0⟩
        · rw [hc0]; trivial
        · rw [hc0]
          have hcalc := calculatedDataSize_nonneg s.h s.rds
          by_cases hp : p.isEmpty
          · simp only [hp, ↓reduceIte, List.append_nil]; exact safe_seek _ _ _ _ _ (fun _ => trivial)
          · simp only [hp, Bool.false_eq_true, ↓reduceIte, List.cons_append, List.nil_append]
            apply safe_seek_write
            · right; omega
            · intro _; trivial
      apply loads_old s W R
      apply synced_of_frames s W
      · exact crash_frame 0 128 (by omega) _ s.st st2 a1 (hsafeAll 0 128 (by omega) a1 a2) hc
      · intro hne'
        obtain ⟨b1, b2⟩ := ht hne'
        exact crash_frame _ _ (by omega) _ s.st st2 b1 (hsafeAll _ _ (by omega) b1 b2) hc
    rw [hst]
    exact hall st' (CrashBetween.of_calls _ _ _ hcalls).toCrashOf
  · exact (step_frame sha ph s W P R op now i d hd hu (fun h => absurd h hrej) hio).1

/-- **add then dump**: after a successful `siftool add`, `siftool dump <new id>` prints exactly
    the bytes of the object file, whatever they are -/
theorem C15_add_then_dump (s : Img) (W : WF s) (P : Placed s) (di : DI) (now : Int) (rnd : Bytes)
    (hok : (step sha ph s (.add di .dflt) now).2 = .ok)
    (hl : loadContainer (step sha ph s (.add di .dflt) now).1.st = .ok (step sha ph s (.add di .dflt) now).1)
    (d : RawDesc)
    (hget : getDescriptor ph (step sha ph s (.add di .dflt) now).1 [.id (findFreeSlot s.rds + 1)] = .ok d)
    (hd : (step sha ph s (.add di .dflt) now).1.rds[findFreeSlot s.rds]? = some d)
    (arg : Bytes) (ha : parseU32 arg = some (findFreeSlot s.rds + 1)) :
    (run sha ph (some (step sha ph s (.add di .dflt) now).1.st) (.dump arg) now rnd).out = di.content ∧
    (run sha ph (some (step sha ph s (.add di .dflt) now).1.st) (.dump arg) now rnd).ok = true := by
  obtain ⟨d', calls, hd', hu, hid, hcont, hw, _⟩ := add_readback sha ph s W P di .dflt now hok
  rw [hd] at hd'
  cases hd'
  obtain ⟨off, _, _, _, _, _, _, hsz, _⟩ := writeDataObjectAt_ok sha _ di _ _ d calls hw
  simp only [run, runRead, hl, ha, hget, hcont, hsz]
  simp

end Sif.Cli
