/-
  Props/C01.lean — Stored objects are read back exactly.
  Property theorems only (helpers: Proofs/Readback.lean, Proofs/CreateWF.lean, …).
-/
import SifVerif.Proofs.Readback
import SifVerif.Props.C08
import SifVerif.Proofs.CleanHistory
namespace Sif.C01

variable (sha : Bytes → Bytes) (ph : Bytes → Option Bytes)

/-- the attributes a descriptor input asks for, as `fillDescriptor` records them: type, group
    (with the format's flag nibble), link (object or group), NUL-padded name, creation and
    modification time (explicit, else the operation's), zeroed uid/gid, and the type-specific
    metadata; the stored size is the content's length -/
def Recorded (sha : Bytes → Bytes) (di : DI) (t : Int) (d : RawDesc) : Prop :=
  d.used = true ∧ d.dtype = di.dt ∧ d.gid = (di.groupID % u32Mod ||| descrGroupMask) ∧
  d.link = di.linkID ∧ d.name = pad 128 di.name ∧ di.name.length ≤ 128 ∧
  d.ctime = (if di.objTime != zeroTime then di.objTime else t) ∧ d.mtime = d.ctime ∧
  d.size = di.content.length ∧
  (match di.md.marshal sha di.content with
   | .ok (some b) => d.extra = pad 384 b ∧ b.length ≤ 384
   | .ok none => d.extra = zeros 384
   | .error _ => False)

theorem recorded_of_write (offU : Int) (di : DI) (t : Int) (i : Nat) (d : RawDesc)
    (calls : List IOCall)
    (h : writeDataObjectAt sha offU di t { zeroDesc with id := i } = (calls, .ok d)) :
    Recorded sha di t d := by
  obtain ⟨off, _, _, _, hu, _, _, hsz, _, hg, hdt, hl, hn, hnl, hc, hm, _, _, hx⟩ :=
    writeDataObjectAt_ok sha offU di t _ d calls h
  refine ⟨hu, hdt, hg, hl, hn, hnl, hc, hm, hsz, ?_⟩
  cases hmm : di.md.marshal sha di.content with
  | error e => simp [hmm] at hx
  | ok ob =>
    cases ob with
    | none => simp only [hmm] at hx ⊢; simpa [zeroDesc] using hx
    | some b => simp only [hmm] at hx ⊢; exact hx

/-- **AddObject**: the object just accepted is returned unchanged from the same handle — content
    byte-identical (any length, any alignment), every attribute as recorded, image modification
    time as requested -/
theorem C01_add (s : Img) (W : WF s) (P : Placed s) (di : DI) (t : TOpt) (now : Int)
    (hok : (step sha ph s (.add di t) now).2 = .ok) :
    ∃ d, (step sha ph s (.add di t) now).1.rds[findFreeSlot s.rds]? = some d ∧
      d.id = findFreeSlot s.rds + 1 ∧
      objContent (step sha ph s (.add di t) now).1.st d = di.content ∧
      Recorded sha di (resolveTime s t now) d ∧
      (step sha ph s (.add di t) now).1.h.mtime = resolveTime s t now := by
  obtain ⟨d, calls, h1, _, h3, h4, h5, h6⟩ := add_readback sha ph s W P di t now hok
  exact ⟨d, h1, h3, h4, recorded_of_write sha _ di _ _ d calls h5, h6⟩

/-- **CreateContainer**: every object given at creation, in order, is returned unchanged (object
    `j` of the list gets ID `j+1`), together with launch script, image ID and creation time -/
theorem C01_create (be : Backend) (co : CreateOpts) (hcap : 0 ≤ co.capacity) (hdoff : 128 ≤ co.doff)
    (h : (createContainerPlan sha ph be co).2.2 = .ok) :
    ∃ st', (emptyStore be).calls (createContainerPlan sha ph be co).1 = some st' ∧
      let s := (createContainerPlan sha ph be co).2.1
      s.h.launch = pad 32 co.launch ∧ s.h.id = co.id ∧ s.h.ctime = co.t ∧ s.h.mtime = co.t ∧
      ∀ j (hj : j < co.dis.length), ∃ d ∈ s.rds, d.id = j + 1 ∧
        objContent st' d = co.dis[j].content ∧ Recorded sha co.dis[j] co.t d := by
  obtain ⟨st', h1, _, _, h4⟩ := createContainerPlan_ok sha ph be co hcap hdoff trivial h
  refine ⟨st', h1, ?_⟩
  have hh : (createContainerPlan sha ph be co).2.1.h.launch = pad 32 co.launch ∧
      (createContainerPlan sha ph be co).2.1.h.id = co.id ∧
      (createContainerPlan sha ph be co).2.1.h.ctime = co.t ∧
      (createContainerPlan sha ph be co).2.1.h.mtime = co.t := by
    unfold createContainerPlan at h ⊢
    by_cases hc : co.capacity ≥ maxU32
    · simp [hc] at h
    · simp only [hc, ↓reduceIte] at h ⊢
      have hdr := createObjects_hdr sha ph co.dis 0 co.t
        { h := { launch := pad 32 co.launch, magic := hdrMagic, version := curVersion, arch := archUnknown,
                 id := co.id, ctime := co.t, mtime := co.t, dfree := co.capacity, dtotal := co.capacity,
                 doff := co.doff, dsize := 585 * co.capacity.toNat,
                 dataOff := co.doff + 585 * co.capacity.toNat, dataSize := 0 },
          rds := List.replicate co.capacity.toNat zeroDesc, minIDs := [], st := emptyStore be }
      rcases hco : createObjects sha ph co.dis 0 co.t _ [] with ⟨calls, s2, r⟩
      rw [hco] at hdr
      cases r <;> simpa using ⟨hdr.1, hdr.2.1, hdr.2.2.1, hdr.2.2.2.1⟩
  refine ⟨hh.1, hh.2.1, hh.2.2.1, hh.2.2.2, ?_⟩
  intro j hj
  obtain ⟨d, hd, _, hid, hc, offU, calls, hw⟩ := h4 j hj
  exact ⟨d, hd, hid, hc, recorded_of_write sha offU _ _ _ d calls hw⟩

/-- **any number of objects, added at any point of any history**: from an accepted creation
    (options representable, capacity positive) through any history of operations with representable
    inputs and no store failure, an `AddObject` that is then accepted returns its object unchanged —
    content, attributes, modification time.  The well-formedness and placement `C01_add` asks for are
    an invariant of such histories (`C09Inv_history`), not a hypothesis. -/
theorem C01_add_after_history (be : Backend) (co : CreateOpts) (hin : co.InRange) (hcap : 0 < co.capacity)
    (hdoff : 128 ≤ co.doff) (h : (createContainerPlan sha ph be co).2.2 = .ok)
    (ops : List (Op × Int)) (di : DI) (t : TOpt) (now : Int) :
    ∃ st0, (emptyStore be).calls (createContainerPlan sha ph be co).1 = some st0 ∧
      let s0 : Img := { (createContainerPlan sha ph be co).2.1 with st := st0 }
      ((∀ k op now, ops[k]? = some (op, now) → Op.InRange (runOps sha ph s0 (ops.take k)) op now) →
       (∀ k op now, ops[k]? = some (op, now) →
          (step sha ph (runOps sha ph s0 (ops.take k)) op now).2 ≠ .err .io) →
       (step sha ph (runOps sha ph s0 ops) (.add di t) now).2 = .ok →
       ∃ d, (step sha ph (runOps sha ph s0 ops) (.add di t) now).1.rds[findFreeSlot (runOps sha ph s0 ops).rds]? = some d ∧
         d.id = findFreeSlot (runOps sha ph s0 ops).rds + 1 ∧
         objContent (step sha ph (runOps sha ph s0 ops) (.add di t) now).1.st d = di.content ∧
         Recorded sha di (resolveTime (runOps sha ph s0 ops) t now) d ∧
         (step sha ph (runOps sha ph s0 ops) (.add di t) now).1.h.mtime = resolveTime (runOps sha ph s0 ops) t now) := by
  obtain ⟨st0, h1, I0⟩ := created_C09Inv sha ph be co hin hcap hdoff h
  refine ⟨st0, h1, ?_⟩
  intro s0 hi hio hok
  have I := C09Inv_history sha ph s0 ops I0 hi hio ops.length
  rw [List.take_length] at I
  exact C01_add sha ph _ I.wf I.placed di t now hok

/-- **persistence**: an object keeps its descriptor slot, attributes and byte-identical content
    through any later operation that does not delete or edit it (any number of them: induct) -/
theorem C01_persist (s : Img) (W : WF s) (P : Placed s) (R : Ranges s) (op : Op) (now : Int)
    (i : Nat) (d : RawDesc) (hd : s.rds[i]? = some d) (hu : d.used = true)
    (hsv : (plan sha ph s op now).2.2 = .ok → survives ph op d)
    (hio : (step sha ph s op now).2 ≠ .err .io) :
    objContent (step sha ph s op now).1.st d = objContent s.st d :=
  (step_frame sha ph s W P R op now i d hd hu hsv hio).1

/-- **after loading the file anew** everything above is seen identically (C08) -/
theorem C01_reload (s : Img) (W : WF s) (R : Ranges s) :
    ∃ s', loadContainer s.st = .ok s' ∧ view s' = view s :=
  let ⟨s', h1, h2, _, _⟩ := C08.C08_sync s W R
  ⟨s', h1, h2⟩

/-- names: what `Descriptor.Name()` returns (NUL-trimmed field) is the name given, for every name
    of 0..128 bytes that does not end in NUL (interior NULs and any UTF-8 included) -/
theorem C01_name (name : Bytes) (hl : name.length ≤ 128) (hlast : name.getLast? ≠ some 0) :
    trimNul (pad 128 name) = name := trimNul_pad 128 name hl hlast

/-- launch scripts likewise (0..31 bytes; 32 is rejected by `OptCreateWithLaunchScript`) -/
theorem C01_launch (s : Bytes) (co co' : CreateOpts) (h : (CreateOpt.launchScript s).apply co = .ok co')
    (hlast : s.getLast? ≠ some 0) : trimNul (pad 32 co'.launch) = s ∧ s.length < 32 := by
  simp only [CreateOpt.apply, hdrLaunchLen] at h
  by_cases hlen : s.length ≥ 32
  · simp [hlen] at h
  · simp only [hlen, ↓reduceIte, Except.ok.injEq] at h
    subst h
    simp only [pad_pad]
    exact ⟨trimNul_pad 32 s (by omega) hlast, by omega⟩

/-- the behaviour at the excluded point: a trailing NUL is not representable in the NUL-padded
    field and is trimmed on read (a limit of the on-disk format, not of the code) -/
theorem C01_name_trailing_nul : trimNul (pad 128 [97, 0]) = [97] := by decide +kernel

/-- OCI blobs and root indexes carry the SHA-256 of exactly the bytes stored -/
theorem C01_oci_digest (di : DI) (t : Int) (d : RawDesc) (hmd : di.md = .ociAuto)
    (h : Recorded sha di t d) :
    d.extra = pad 384 ("sha256:".toUTF8.toList ++ sha di.content) := by
  obtain ⟨_, _, _, _, _, _, _, _, _, hx⟩ := h
  simp only [hmd, MDIn.marshal] at hx
  exact hx.1

/-- and `NewDescriptorInput` arms that digest exactly for the two OCI data types, unless the
    caller overrides the metadata -/
theorem C01_oci_default (t : Int) (content : Bytes) :
    (newDescriptorInput t [] content none).map (·.md) =
      .ok (if isOCIType t then MDIn.ociAuto else MDIn.nil) := by
  simp [newDescriptorInput, List.foldlM, Except.map, pure, Except.pure]

end Sif.C01
