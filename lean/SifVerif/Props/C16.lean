/-
  Props/C16.lean — Legacy and current signatures are never confused; legacy mode is sound.
-/
import SifVerif.Proofs.Tasks
import SifVerif.Props.C04
namespace Sif.C16

variable (H : HashAlg → Bytes → Bytes) (ph : Bytes → Option Bytes) (fpOf : Nat → Bytes)
  (facts : Bytes → SigFacts)

def Task.isLegacy : Task → Bool
  | .group _ _ _ => false
  | _ => true

/-- **Selection by kind.**  Group-linked signatures are considered iff their kind (legacy
    `SIFHASH:` clear-sign plaintext, or not) is the requested one. -/
theorem C16_filter (s : Img) (g : Nat) (legacy : Bool) (sigs : List RawDesc)
    (h : getGroupSignatures facts s g legacy = .ok sigs) :
    ∀ d ∈ sigs, isLegacy (facts (objContent s.st d)) = legacy :=
  fun d hd => (getGroupSignatures_ok facts s g legacy sigs h).2 d hd |>.2.2.2.2.2

/-- the tasks `NewVerifier` builds are all of the requested kind: default mode never builds a
    legacy task, legacy modes never build a current-format task -/
theorem C16_tasks_kind (s : Img) (legacy : Bool) (groups objects : List Nat) (ts : List Task)
    (h : getTasks ph s legacy groups objects = .ok ts) : ∀ t ∈ ts, Task.isLegacy t = legacy := by
  unfold getTasks at h
  cases hg : groupTasks ph s legacy groups with
  | error e => simp [hg] at h
  | ok gt =>
    simp only [hg] at h
    cases ho : objectTasks ph s legacy objects with
    | error e => simp [ho] at h
    | ok ot =>
      simp only [ho, Except.ok.injEq] at h
      subst h
      have hG : ∀ (gs : List Nat) (r : List Task), groupTasks ph s legacy gs = .ok r →
          ∀ t ∈ r, Task.isLegacy t = legacy := by
        intro gs
        induction gs with
        | nil => intro r hr t ht; simp [groupTasks] at hr; subst hr; cases ht
        | cons x xs ih =>
          intro r hr t ht
          unfold groupTasks at hr
          cases h1 : getGroupObjects ph s x with
          | error e => simp [h1] at hr
          | ok ods =>
            simp only [h1] at hr
            cases h2 : groupTasks ph s legacy xs with
            | error e => simp [h2] at hr
            | ok r' =>
              simp only [h2, Except.ok.injEq] at hr
              subst hr
              rcases List.mem_cons.mp ht with ht | ht
              · subst ht; cases legacy <;> rfl
              · exact ih r' h2 t ht
      have hO : ∀ (ids : List Nat) (r : List Task), objectTasks ph s legacy ids = .ok r →
          ∀ t ∈ r, Task.isLegacy t = legacy := by
        intro ids
        induction ids with
        | nil => intro r hr t ht; simp [objectTasks] at hr; subst hr; cases ht
        | cons x xs ih =>
          intro r hr t ht
          unfold objectTasks at hr
          cases h1 : getDescriptor ph s [.id x] with
          | error e => simp [h1] at hr
          | ok od =>
            simp only [h1] at hr
            cases h2 : objectTasks ph s legacy xs with
            | error e => simp [h2] at hr
            | ok r' =>
              simp only [h2, Except.ok.injEq] at hr
              subst hr
              rcases List.mem_cons.mp ht with ht | ht
              · subst ht; cases legacy <;> rfl
              · exact ih r' h2 t ht
      intro t ht
      rcases List.mem_append.mp ht with ht | ht
      · exact hG groups gt hg t ht
      · exact hO objects ot ho t ht

/-- **No cross-satisfaction, group level.**  If every signature linked to group `g` is of the
    other kind, the request fails with "signature not found" (or an earlier error) — it cannot
    succeed. -/
theorem C16_no_cross (s : Img) (g : Nat) (legacy : Bool)
    (hall : ∀ d ∈ live s.rds, d.dtype = dtSignature → d.linkIsGroup = true → d.linkedID = g →
      isLegacy (facts (objContent s.st d)) = !legacy) :
    ∀ sigs, getGroupSignatures facts s g legacy ≠ .ok sigs := by
  intro sigs h
  obtain ⟨hne, hs⟩ := getGroupSignatures_ok facts s g legacy sigs h
  cases sigs with
  | nil => exact hne rfl
  | cons d ds =>
    obtain ⟨h1, h2, h3, h4, h5, h6⟩ := hs d (by simp)
    have := hall d (by simp [live, h1, h2]) h3 h4 h5
    rw [h6] at this
    cases legacy <;> simp at this

theorem hexDecode_bad_head (c : Char) (cs : List Char) (h : hexDigitVal c = none) :
    hexDecode (c :: cs) = none := by
  cases cs with
  | nil => rfl
  | cons d ds => simp [hexDecode, h]

/-- a current-format (JSON) plaintext never satisfies a legacy request: it starts with `{`, which
    is not a hex digit, so `newLegacyDigest` fails -/
theorem C16_json_not_legacy_digest (ht : Int) (rest : Bytes) :
    ∃ e, newLegacyDigest ht (123 :: rest) = .error e := by
  have h1 : trimPrefix legacyPrefix (123 :: rest) = 123 :: rest := by
    unfold trimPrefix legacyPrefix
    split
    · rename_i h
      have := congrArg List.head? (by simpa using h : (123 :: rest).take 9 = [83, 73, 70, 72, 65, 83, 72, 58, 10])
      simp at this
    · rfl
  have h2 : ∃ tl, trimSuffix [10] (123 :: rest) = 123 :: tl := by
    unfold trimSuffix
    split
    · cases rest with
      | nil => rename_i h; simp at h
      | cons x xs => exact ⟨(x :: xs).take xs.length, by simp [List.take]⟩
    · exact ⟨rest, rfl⟩
  obtain ⟨tl, h2⟩ := h2
  have h3 : hexDecode ((123 :: tl).map (fun c => Char.ofNat c.toNat)) = none := by
    simp only [List.map_cons]
    exact hexDecode_bad_head _ _ (by decide)
  unfold newLegacyDigest
  simp only [h1, h2, h3]
  exact ⟨_, rfl⟩

/-- **Legacy soundness.**  A legacy verification that succeeds means: a supplied PGP key validated
    the clear-signed message, the signature descriptor's fingerprint is that key's, and the covered
    content (the object; or the concatenation of the group's members in table order) hashes, with
    the descriptor's hash type, to the digest in the signed plaintext. -/
theorem C16_legacy_sound (s : Img) (km : KeyMaterial) (content : Bytes) (covered : List Nat)
    (errID : Nat) (sig : RawDesc) (de : Decoder) (r : SigResult)
    (h : verifyLegacySig H fpOf facts s km content covered errID sig de = .ok r) :
    ∃ p d a, verifyMessage (facts (objContent s.st sig)) km de = some (p, r.keys, r.entity) ∧
      newLegacyDigest sig.sigHashType p = .ok d ∧ d.alg = some a ∧ d.value = H a content ∧
      r.verified = covered ∧ (∀ k, r.entity = some k → sig.sigFingerprint = some (fpOf k)) := by
  unfold verifyLegacySig at h
  cases h1 : verifyMessage (facts (objContent s.st sig)) km de with
  | none => simp [h1] at h
  | some res =>
    obtain ⟨p, keys, ent⟩ := res
    simp only [h1] at h
    cases h2 : sigMetadata sig with
    | error e => simp [h2] at h
    | ok hf =>
      obtain ⟨ht, fp⟩ := hf
      simp only [h2] at h
      cases hmm : fpMismatch fpOf ent fp with
      | true => simp [hmm] at h
      | false =>
        simp only [hmm, Bool.false_eq_true, ↓reduceIte] at h
        cases h3 : newLegacyDigest ht p with
        | error e => simp [h3] at h
        | ok d =>
          simp only [h3] at h
          cases h4 : d.matches H content with
          | error e => simp [h4] at h
          | ok b =>
            cases b with
            | false => simp [h4] at h
            | true =>
              simp only [h4, Except.ok.injEq] at h
              subst h
              obtain ⟨a, ha, hv⟩ := Digest.matches_true H d content h4
              have hmeta : ht = sig.sigHashType ∧ fp = sig.sigFingerprint := by
                unfold sigMetadata at h2
                split at h2
                · cases h2
                · split at h2
                  · simp only [Except.ok.injEq, Prod.mk.injEq] at h2; exact ⟨h2.1.symm, h2.2.symm⟩
                  · cases h2
              refine ⟨p, d, a, rfl, by rw [← hmeta.1]; exact h3, ha, hv, rfl, ?_⟩
              intro k hk
              simp only at hk
              subst hk
              have : some (fpOf k) = fp := by simpa [fpMismatch] using hmm
              rw [← hmeta.2, this]

/-- O1 (reading note): in legacy *group* mode the covered unit is the concatenation of the
    members' contents; object boundaries inside it are not protected by the format -/
theorem C16_group_boundaries_unprotected (a b : Bytes) (x : UInt8) :
    [a ++ [x], b].flatMap id = [a, x :: b].flatMap id := by simp

end Sif.C16
