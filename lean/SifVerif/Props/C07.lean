/-
  Props/C07.lean — Trust comes only from supplied keys; reported signers are the real ones.
-/
import SifVerif.Proofs.Tasks
import SifVerif.Props.C04
namespace Sif.C07

variable (H : HashAlg → Bytes → Bytes) (ph : Bytes → Option Bytes) (fpOf : Nat → Bytes)
  (facts : Bytes → SigFacts)

/-- **Decoder choice.**  A signature is handed to the DSSE decoder iff it decodes as an envelope of
    the SIF metadata payload type, else to the clear-sign decoder iff it contains a clear-signed
    block; if the chosen scheme's key material was not supplied, or neither format is recognised,
    the result is an error — never a skip. -/
theorem C07_decoder (f : SigFacts) (km : KeyMaterial) :
    (isDSSE f = true → km.vs = none → chooseDecoder f km = .error .noKeyMaterialDSSE) ∧
    (isDSSE f = true → km.vs ≠ none → chooseDecoder f km = .ok .dsse) ∧
    (isDSSE f = false → f.cs ≠ none → km.kr = none → chooseDecoder f km = .error .noKeyMaterialPGP) ∧
    (isDSSE f = false → f.cs ≠ none → km.kr ≠ none → chooseDecoder f km = .ok .clearsign) ∧
    (isDSSE f = false → f.cs = none → chooseDecoder f km = .error .formatNotRecognized) := by
  unfold chooseDecoder
  refine ⟨?_, ?_, ?_, ?_, ?_⟩
  · intro h1 h2; simp [h1, h2]
  · intro h1 h2
    cases hv : km.vs with
    | none => exact absurd hv h2
    | some v => simp [h1]
  · intro h1 h2 h3
    cases hc : f.cs with
    | none => exact absurd hc h2
    | some c => simp [h1, h3]
  · intro h1 h2 h3
    cases hc : f.cs with
    | none => exact absurd hc h2
    | some c =>
      cases hk : km.kr with
      | none => exact absurd hk h3
      | some k => simp [h1]
  · intro h1 h2; simp [h1, h2]

/-- **Never skipped.**  When verification succeeds, every signature attached to every task was
    checked by a decoder built from key material the caller supplied, and passed. -/
theorem C07_never_skipped (s : Img) (km : KeyMaterial) (tasks : List Task) (rs : List SigResult)
    (h : verify H ph fpOf facts s km tasks = .ok rs) :
    ∀ t ∈ tasks, ∃ sigs, t.signatures ph facts s = .ok sigs ∧
      ∀ sig ∈ sigs, ∃ de r, chooseDecoder (facts (objContent s.st sig)) km = .ok de ∧
        t.verifySig H fpOf facts s km sig de = .ok r ∧ r ∈ rs :=
  verifyTasks_ok H ph fpOf facts s km tasks rs (verify_ok H ph fpOf facts s km tasks rs h).2

/-- **Foreign payload types are never accepted**: an envelope whose payload type is not the SIF
    metadata type is not treated as a DSSE signature, and the DSSE decoder rejects it outright. -/
theorem C07_foreign_payload (f : SigFacts) (km : KeyMaterial) (d : DsseFacts) (hd : f.dsse = some d)
    (hp : d.payloadType ≠ mediaType) :
    isDSSE f = false ∧ verifyMessage f km .dsse = none := by
  have hb : (d.payloadType == mediaType) = false := by simpa using hp
  constructor
  · simp [isDSSE, hd, hb]
  · simp only [verifyMessage, hd]
    split
    · rfl
    · simp [hp]

/-- **Reported signers are the real ones.**  An accepted message reports exactly the supplied DSSE
    verifiers that validate the envelope (a non-empty set), or the PGP entity whose key made the
    signature, which is in the supplied keyring. -/
theorem C07_reported (f : SigFacts) (km : KeyMaterial) (de : Decoder) (p : Bytes) (keys : List Nat)
    (ent : Option Nat) (h : verifyMessage f km de = some (p, keys, ent)) :
    (de = .dsse ∧ ent = none ∧ keys ≠ [] ∧ ∃ d vs, f.dsse = some d ∧ km.vs = some vs ∧
        keys = vs.filter (fun k => d.validKeys.contains k)) ∨
    (de = .clearsign ∧ keys = [] ∧ ∃ c k kr, f.cs = some c ∧ km.kr = some kr ∧
        c.signer = some k ∧ k ∈ kr ∧ ent = some k) := by
  rcases verifyMessage_some f km de p keys ent h with
    ⟨a, b, c, d, vs, e, f', _, _, g⟩ | ⟨a, b, c, k, kr, d, e, f', g, h', _⟩
  · exact Or.inl ⟨a, b, c, d, vs, e, f', g⟩
  · exact Or.inr ⟨a, b, c, k, kr, d, e, f', g, h'⟩

/-- **Fingerprint binding.**  A group signature accepted through the PGP path names, in its
    descriptor, the primary-key fingerprint of the entity that validated it. -/
theorem C07_fingerprint (s : Img) (km : KeyMaterial) (g : Nat) (ods : List RawDesc) (sub : Bool)
    (sig : RawDesc) (de : Decoder) (r : SigResult) (k : Nat)
    (h : verifyGroupSig H fpOf facts s km g ods sub sig de = .ok r) (hk : r.entity = some k) :
    sig.sigFingerprint = some (fpOf k) := by
  obtain ⟨ok⟩ := verifyGroupSig_ok H fpOf facts s km g ods sub sig de r h
  exact ok.hfp k hk

/-- **Only supplied keys.**  Every accepted group signature was validated by a key the caller
    supplied (per the envelope layer), so with an unforgeable scheme a holder of a supplied key
    signed it. -/
theorem C07_only_trusted (s : Img) (km : KeyMaterial) (g : Nat) (ods : List RawDesc) (sub : Bool)
    (sig : RawDesc) (de : Decoder) (r : SigResult)
    (h : verifyGroupSig H fpOf facts s km g ods sub sig de = .ok r) :
    ∃ k ∈ C04.trusted km, C04.Validates (facts (objContent s.st sig)) k := by
  obtain ⟨ok⟩ := verifyGroupSig_ok H fpOf facts s km g ods sub sig de r h
  rcases verifyMessage_some _ km de ok.payload r.keys r.entity ok.hmsg with
    ⟨_, _, hne', d, vs, hd, hvs, _, _, hkeys⟩ | ⟨_, _, c, k, kr, hc, hkr, hsg, hmem, _, _⟩
  · cases hk' : r.keys with
    | nil => exact absurd hk' hne'
    | cons k rest =>
      have hkm : k ∈ vs.filter (fun k => d.validKeys.contains k) := by rw [← hkeys, hk']; simp
      simp only [List.mem_filter, List.contains_iff_mem] at hkm
      exact ⟨k, by simp [C04.trusted, hvs, hkm.1], Or.inl ⟨d, hd, by simpa using hkm.2⟩⟩
  · exact ⟨k, by simp [C04.trusted, hkr, hmem], Or.inr ⟨c, hc, hsg⟩⟩

/-- with no key material at all nothing verifies: every signature ends in an error -/
theorem C07_no_keys (f : SigFacts) : ∃ e, chooseDecoder f {} = .error e := by
  unfold chooseDecoder
  by_cases h1 : isDSSE f = true
  · exact ⟨.noKeyMaterialDSSE, by simp [h1]⟩
  · cases hc : f.cs with
    | none => exact ⟨.formatNotRecognized, by simp [h1]⟩
    | some c => exact ⟨.noKeyMaterialPGP, by simp [h1]⟩

end Sif.C07
