/-
  Props/C17.lean — Signer listings are exact.
-/
import SifVerif.Proofs.Fingerprints
import SifVerif.Proofs.Tasks
namespace Sif.C17

variable (H : HashAlg → Bytes → Bytes) (ph : Bytes → Option Bytes) (fpOf : Nat → Bytes)
  (facts : Bytes → SigFacts)

theorem getFingerprintsAcc_spec (sigs : List RawDesc) (acc fps : List Bytes) (hs : SortedBytes acc)
    (h : getFingerprintsAcc sigs acc = .ok fps) :
    SortedBytes fps ∧ ∀ x, x ∈ fps ↔ x ∈ acc ∨ ∃ sig ∈ sigs, sig.sigFingerprint = some x := by
  induction sigs generalizing acc with
  | nil => simp only [getFingerprintsAcc, Except.ok.injEq] at h; subst h; exact ⟨hs, by simp⟩
  | cons d ds ih =>
    unfold getFingerprintsAcc at h
    cases hm : sigMetadata d with
    | error e => simp [hm] at h
    | ok r =>
      obtain ⟨ht, fp⟩ := r
      have hfp : fp = d.sigFingerprint := by
        unfold sigMetadata at hm
        split at hm
        · cases hm
        · split at hm
          · simp only [Except.ok.injEq, Prod.mk.injEq] at hm; exact hm.2.symm
          · cases hm
      cases fp with
      | none =>
        simp only [hm] at h
        obtain ⟨a, b⟩ := ih acc hs h
        refine ⟨a, fun x => ?_⟩
        rw [b]
        simp only [List.mem_cons, exists_eq_or_imp, ← hfp]
        simp
      | some f =>
        simp only [hm] at h
        obtain ⟨a, b⟩ := ih _ (SortedBytes.insert acc f hs) h
        refine ⟨a, fun x => ?_⟩
        rw [b, mem_insertSortedBytes]
        simp only [List.mem_cons, exists_eq_or_imp, ← hfp, Option.some.injEq]
        constructor
        · rintro ((h | h) | h)
          · exact Or.inr (Or.inl h.symm)
          · exact Or.inl h
          · exact Or.inr (Or.inr h)
        · rintro (h | h | h)
          · exact Or.inl (Or.inr h)
          · exact Or.inl (Or.inl h.symm)
          · exact Or.inr h

/-- the fingerprints recorded on the signatures attached to a task: the non-empty fingerprints of
    its signature descriptors (none when the task has no signature) -/
def recorded (s : Img) (t : Task) (x : Bytes) : Prop :=
  ∃ sigs, t.signatures ph facts s = .ok sigs ∧ ∃ sig ∈ sigs, sig.sigFingerprint = some x

theorem taskFingerprints_spec (s : Img) (t : Task) (fps : List Bytes)
    (h : taskFingerprints ph facts s t = .ok fps) :
    SortedBytes fps ∧ ∀ x, x ∈ fps ↔ recorded ph facts s t x := by
  unfold taskFingerprints at h
  cases hs : t.signatures ph facts s with
  | ok sigs =>
    simp only [hs, getFingerprints] at h
    obtain ⟨a, b⟩ := getFingerprintsAcc_spec sigs [] fps (by simp [SortedBytes]) h
    refine ⟨a, fun x => ?_⟩
    rw [b]
    simp only [List.not_mem_nil, false_or, recorded, hs, Except.ok.injEq, exists_eq_left']
  | error e =>
    cases e with
    | signatureNotFound i g =>
      simp only [hs, getFingerprints, getFingerprintsAcc, Except.ok.injEq] at h
      subst h
      exact ⟨by simp [SortedBytes], fun x => by simp [recorded, hs]⟩
    | _ => simp [hs] at h

/-- pointwise relation between the tasks and their fingerprint lists -/
inductive PerTask (R : Task → List Bytes → Prop) : List Task → List (List Bytes) → Prop
  | nil : PerTask R [] []
  | cons {t ts f fs} : R t f → PerTask R ts fs → PerTask R (t :: ts) (f :: fs)

theorem allTaskFingerprints_spec (s : Img) (tasks : List Task) (per : List (List Bytes))
    (h : allTaskFingerprints ph facts s tasks = .ok per) :
    PerTask (fun t fps => ∀ x, x ∈ fps ↔ recorded ph facts s t x) tasks per := by
  induction tasks generalizing per with
  | nil => simp only [allTaskFingerprints, Except.ok.injEq] at h; subst h; exact .nil
  | cons t ts ih =>
    unfold allTaskFingerprints at h
    cases h1 : taskFingerprints ph facts s t with
    | error e => simp [h1] at h
    | ok fps =>
      simp only [h1] at h
      cases h2 : allTaskFingerprints ph facts s ts with
      | error e => simp [h2] at h
      | ok r =>
        simp only [h2, Except.ok.injEq] at h
        subst h
        exact .cons (taskFingerprints_spec ph facts s t fps h1).2 (ih r h2)

/-- **Exactness.**  `AnySignedBy` (resp. `AllSignedBy`) returns, strictly sorted in byte order and
    therefore duplicate-free, exactly the fingerprints recorded on the signatures attached to at
    least one (resp. every one) of the selected tasks. -/
theorem C17_exact (s : Img) (tasks : List Task) (anyTask : Bool) (fps : List Bytes)
    (h : fingerprints ph facts s tasks anyTask = .ok fps) :
    SortedBytes fps ∧ fps.Nodup ∧
    ∀ x, x ∈ fps ↔ (∃ t ∈ tasks, recorded ph facts s t x) ∧
      (anyTask = true ∨ ∀ t ∈ tasks, recorded ph facts s t x) := by
  unfold fingerprints at h
  cases hp : allTaskFingerprints ph facts s tasks with
  | error e => simp [hp] at h
  | ok per =>
    simp only [hp, Except.ok.injEq] at h
    subst h
    obtain ⟨c1, c2⟩ := combineFingerprints_spec per anyTask
    have hf := allTaskFingerprints_spec ph facts s tasks per hp
    refine ⟨c1, SortedBytes.nodup _ c1, fun x => ?_⟩
    rw [c2]
    have e1 : (∃ fps ∈ per, x ∈ fps) ↔ ∃ t ∈ tasks, recorded ph facts s t x := by
      clear c1 c2 hp
      induction hf with
      | nil => simp
      | cons hd _ ih => simp only [List.mem_cons, exists_eq_or_imp, hd x, ih]
    have e2 : (∀ fps ∈ per, x ∈ fps) ↔ ∀ t ∈ tasks, recorded ph facts s t x := by
      clear c1 c2 hp e1
      induction hf with
      | nil => simp
      | cons hd _ ih => simp only [List.mem_cons, forall_eq_or_imp, hd x, ih]
    rw [e1, e2]

/-- the listing is a function of the image and the tasks only: it neither needs key material nor
    produces a new image (the model's `fingerprints` has no store output at all) -/
theorem C17_read_only (s : Img) (tasks : List Task) (anyTask : Bool) (st' : Store)
    (hbuf : st'.buf = s.st.buf) :
    fingerprints ph facts { s with st := st' } tasks anyTask = fingerprints ph facts s tasks anyTask := by
  have hobj : ∀ d, objContent ({ s with st := st' } : Img).st d = objContent s.st d := by
    intro d; simp [objContent, hbuf]
  have hsig : ∀ t : Task, t.signatures ph facts { s with st := st' } = t.signatures ph facts s := by
    intro t
    have hemp : ({ s with st := st' } : Img).isEmpty = s.isEmpty := rfl
    cases t <;> simp only [Task.signatures, getGroupSignatures, getObjectSignatures, getDescriptors,
      dataReadable, hobj, hemp]
  have hall : ∀ ts : List Task, allTaskFingerprints ph facts { s with st := st' } ts =
      allTaskFingerprints ph facts s ts := by
    intro ts
    induction ts with
    | nil => rfl
    | cons t ts ih => simp only [allTaskFingerprints, taskFingerprints, hsig, ih]
  simp only [fingerprints, hall]

/-- **Validated.**  After a successful verification of a group task, every signature attached to
    it that went through the PGP path carries exactly the primary-key fingerprint of the entity
    that validated it, and that entity is in the supplied keyring.  (DSSE signature descriptors
    carry no fingerprint in the property's domain; see observation O2.) -/
theorem C17_validated (s : Img) (km : KeyMaterial) (tasks : List Task) (rs : List SigResult)
    (h : verify H ph fpOf facts s km tasks = .ok rs) (g : Nat) (ods : List RawDesc) (sub : Bool)
    (ht : Task.group g ods sub ∈ tasks) :
    ∃ sigs, getGroupSignatures facts s g false = .ok sigs ∧
      ∀ sig ∈ sigs, ∃ de r, r ∈ rs ∧ chooseDecoder (facts (objContent s.st sig)) km = .ok de ∧
        (de = .clearsign → ∃ k kr, km.kr = some kr ∧ k ∈ kr ∧ r.entity = some k ∧
          sig.sigFingerprint = some (fpOf k)) := by
  obtain ⟨_, hvt⟩ := verify_ok H ph fpOf facts s km tasks rs h
  obtain ⟨sigs, hs, hall⟩ := verifyTasks_ok H ph fpOf facts s km tasks rs hvt _ ht
  simp only [Task.signatures] at hs
  refine ⟨sigs, hs, fun sig hsig => ?_⟩
  obtain ⟨de, r, hde, hv, hr⟩ := hall sig hsig
  simp only [Task.verifySig] at hv
  obtain ⟨ok⟩ := verifyGroupSig_ok H fpOf facts s km g ods sub sig de r hv
  refine ⟨de, r, hr, hde, fun hcs => ?_⟩
  rcases verifyMessage_some _ km de ok.payload r.keys r.entity ok.hmsg with
    ⟨hd, _⟩ | ⟨_, _, c, k, kr, _, hkr, _, hmem, hent, _⟩
  · rw [hcs] at hd; cases hd
  · exact ⟨k, kr, hkr, hmem, hent, ok.hfp k hent⟩

end Sif.C17
