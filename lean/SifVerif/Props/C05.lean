/-
  Props/C05.lean — Default verification covers the whole image.
-/
import SifVerif.Proofs.Tasks
namespace Sif.C05

variable (H : HashAlg → Bytes → Bytes) (ph : Bytes → Option Bytes) (fpOf : Nat → Bytes)
  (facts : Bytes → SigFacts)

/-- default options: no group, no object, no legacy mode requested -/
def defaultOpts : VerifyOpts := {}

/-- **Default verification is sound for the whole image.**  If `NewVerifier` with default options
    followed by `Verify` succeeds, then
    (a) every live object outside all groups is a signature object,
    (b) at least one group exists, and for every group `g` that has a live member:
    (c) at least one non-legacy signature is linked to `g`, and **each** such signature was
        checked by a decoder built from supplied key material, is valid, and carries metadata whose
        absolute object IDs are *exactly* the IDs of the current members of `g` (nothing added,
        nothing removed), each member matching its descriptor and content digests, and the
        header matching too. -/
theorem C05_default_sound (s : Img) (km : KeyMaterial) (tasks : List Task) (rs : List SigResult)
    (hn : newVerifier ph s defaultOpts = .ok tasks)
    (hv : verify H ph fpOf facts s km tasks = .ok rs) :
    (∀ d ∈ live s.rds, d.group = 0 → d.dtype = dtSignature) ∧
    (∃ gids, getGroupIDs s = .ok gids ∧ gids ≠ [] ∧
      ∀ g, (g ≠ 0 ∧ ∃ d ∈ live s.rds, d.group = g) →
        let ods := (live s.rds).filter (fun d => d.group == g)
        ∃ sigs, getGroupSignatures facts s g false = .ok sigs ∧ sigs ≠ [] ∧
        ∀ sig ∈ sigs, ∃ de r, chooseDecoder (facts (objContent s.st sig)) km = .ok de ∧ r ∈ rs ∧
          ∃ ok : GroupSigOK H fpOf facts s km g ods false sig de r,
            (∀ d ∈ ods, d.id ∈ ok.im.objects.map (ObjMD.absID ok.minID)) ∧
            (∀ i ∈ ok.im.objects.map (ObjMD.absID ok.minID), ∃ d ∈ ods, d.id = i)) := by
  obtain ⟨⟨ungr, hu, hall⟩, hvt⟩ := verify_ok H ph fpOf facts s km tasks rs hv
  constructor
  · -- (a)
    intro d hd hg
    unfold getDescriptors at hu
    split at hu
    · cases hu
    · have hsel : ∀ x ∈ s.rds, x.used = true → multiSel ph [.noGroup] x = .ok (x.group == 0) := by
        intro x _ _
        simp only [multiSel, Sel.eval]
        cases x.group == 0 <;> rfl
      rw [selectDescs_pure ph [.noGroup] s.rds _ hsel] at hu
      have : d ∈ ungr := by
        rw [← Except.ok.inj hu]; simp [hd, hg]
      exact hall d this
  · -- (b), (c)
    unfold newVerifier defaultOpts at hn
    simp only [List.contains_nil, Bool.false_eq_true, ↓reduceIte, List.foldl_nil, verifierObjects,
      List.isEmpty_nil, Bool.and_self, Bool.or_self] at hn
    cases hg : getGroupIDs s with
    | error e => simp [hg] at hn
    | ok gids =>
      simp only [hg] at hn
      have hne : gids ≠ [] := by
        unfold getGroupIDs at hg
        cases hf : (live s.rds).foldl
            (fun acc d => if d.group != 0 then insertSorted acc d.group else acc) [] with
        | nil => rw [hf] at hg; cases hg
        | cons x xs => rw [hf] at hg; cases hg; simp
      refine ⟨gids, rfl, hne, ?_⟩
      intro g hgm ods
      have hmem : g ∈ gids := (getGroupIDs_mem s gids hg g).mpr hgm
      unfold getTasks at hn
      cases hgt : groupTasks ph s false gids with
      | error e => simp [hgt] at hn
      | ok gt =>
        simp only [hgt, objectTasks, List.append_nil, Except.ok.injEq] at hn
        subst hn
        obtain ⟨ods', hgo, htask⟩ := groupTasks_ok ph s false gids gt hgt g hmem
        simp only [Bool.false_eq_true, ↓reduceIte] at htask
        obtain ⟨_, _, hods⟩ := getGroupObjects_ok ph s g ods' hgo
        obtain ⟨sigs, hs, hsigs⟩ := verifyTasks_ok H ph fpOf facts s km gt rs hvt _ htask
        simp only [Task.signatures] at hs
        obtain ⟨hsne, _⟩ := getGroupSignatures_ok facts s g false sigs hs
        refine ⟨sigs, hs, hsne, ?_⟩
        intro sig hsig
        obtain ⟨de, r, hde, hvs, hr⟩ := hsigs sig hsig
        simp only [Task.verifySig] at hvs
        obtain ⟨ok⟩ := verifyGroupSig_ok H fpOf facts s km g ods' false sig de r hvs
        have hids := objectIDsMatch_ok ok.im ok.minID ods' (ok.hids rfl)
        subst hods
        exact ⟨de, r, hde, hr, ok, hids.1, hids.2⟩

/-- an object outside every group that is not a signature makes verification fail, whatever the
    tasks and keys -/
theorem C05_ungrouped_object (s : Img) (km : KeyMaterial) (tasks : List Task) (d : RawDesc)
    (hd : d ∈ live s.rds) (hg : d.group = 0) (ht : d.dtype ≠ dtSignature) :
    ∀ rs, verify H ph fpOf facts s km tasks ≠ .ok rs := by
  intro rs hv
  obtain ⟨⟨ungr, hu, hall⟩, _⟩ := verify_ok H ph fpOf facts s km tasks rs hv
  unfold getDescriptors at hu
  split at hu
  · cases hu
  · have hsel : ∀ x ∈ s.rds, x.used = true → multiSel ph [.noGroup] x = .ok (x.group == 0) := by
      intro x _ _
      simp only [multiSel, Sel.eval]
      cases x.group == 0 <;> rfl
    rw [selectDescs_pure ph [.noGroup] s.rds _ hsel] at hu
    have : d ∈ ungr := by rw [← Except.ok.inj hu]; simp [hd, hg]
    exact ht (hall d this)

/-- an image with no grouped object never verifies by default: `NewVerifier` already refuses -/
theorem C05_no_groups (s : Img) (h : ∀ d ∈ live s.rds, d.group = 0) :
    ∃ e, newVerifier ph s defaultOpts = .error e := by
  unfold newVerifier defaultOpts
  simp only [List.contains_nil, Bool.false_eq_true, ↓reduceIte, List.foldl_nil, verifierObjects,
    List.isEmpty_nil, Bool.and_self]
  have : getGroupIDs s = .error .noGroupsFound := by
    unfold getGroupIDs
    have key : ∀ ds : List RawDesc, (∀ d ∈ ds, d.group = 0) → ∀ acc,
        ds.foldl (fun acc d => if d.group != 0 then insertSorted acc d.group else acc) acc = acc := by
      intro ds
      induction ds with
      | nil => intro _ acc; rfl
      | cons d ds ih =>
        intro hz acc
        have h0 : d.group = 0 := hz d (by simp)
        simp only [List.foldl_cons, h0, bne_self_eq_false, Bool.false_eq_true, ↓reduceIte]
        exact ih (fun x hx => hz x (by simp [hx])) acc
    rw [key (live s.rds) h []]
  rw [this]
  exact ⟨_, rfl⟩

/-- a group without a (non-legacy) signature linked to it makes default verification fail: the
    only way `getGroupSignatures` returns is non-empty -/
theorem C05_unsigned_group (s : Img) (g : Nat) (sigs : List RawDesc)
    (h : getGroupSignatures facts s g false = .ok sigs) :
    sigs ≠ [] ∧ ∀ d ∈ sigs, d.dtype = dtSignature ∧ d.linkIsGroup = true ∧ d.linkedID = g ∧
      isLegacy (facts (objContent s.st d)) = false :=
  let ⟨h1, h2⟩ := getGroupSignatures_ok facts s g false sigs h
  ⟨h1, fun d hd => let ⟨_, _, a, b, c, e⟩ := h2 d hd; ⟨a, b, c, e⟩⟩

/-- D10 (known finding): what default verification cannot notice.  Verification is decided group
    by group; a group with no live member is simply not a task, so an image from which every
    member of a signed group was removed presents fewer groups and the check above is vacuous for
    the removed one. -/
theorem C05_whole_group_removed_partial (s : Img) (gids : List Nat) (h : getGroupIDs s = .ok gids)
    (g : Nat) (hgone : ∀ d ∈ live s.rds, d.group ≠ g) : g ∉ gids := by
  intro hm
  obtain ⟨_, d, hd, hdg⟩ := (getGroupIDs_mem s gids h g).mp hm
  exact hgone d hd hdg

end Sif.C05
