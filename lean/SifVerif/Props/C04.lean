/-
  Props/C04.lean — Tamper evidence: no change to signed content passes verification.
  Cryptography is idealised by explicit hypotheses (never axioms): `HInj` (collision resistance),
  `Honest` (unforgeability + honest signers + JSON round trip, stated on the envelope facts).
-/
import SifVerif.Proofs.Integrity
import SifVerif.Proofs.Streams
namespace Sif.C04

variable (H : HashAlg → Bytes → Bytes) (ph : Bytes → Option Bytes) (fpOf : Nat → Bytes)
  (facts : Bytes → SigFacts)

/-- collision-resistance idealisation: the hash is injective, per algorithm -/
def HInj : Prop := ∀ a x y, H a x = H a y → x = y

/-- key `k` validates the blob whose envelope facts are `f` -/
def Validates (f : SigFacts) (k : Nat) : Prop :=
  (∃ d, f.dsse = some d ∧ k ∈ d.validKeys) ∨ (∃ c, f.cs = some c ∧ c.signer = some k)

/-- the keys the caller supplied -/
def trusted (km : KeyMaterial) : List Nat := km.vs.getD [] ++ km.kr.getD []

/-- unforgeability + honest signers + JSON round trip: whatever a trusted key validates decodes to
    image metadata that the holder of that key signed (`Signed k m`) -/
def Honest (km : KeyMaterial) (Signed : Nat → ImageMD → Prop) : Prop :=
  ∀ blob k, k ∈ trusted km → Validates (facts blob) k →
    ∃ raw m, (facts blob).md = some raw ∧ parseMD raw = .ok m ∧ Signed k m

/-- the integrity streams are injective encodings of exactly the protected fields -/
theorem C04_streams_injective :
    (∀ a b : Hdr, a.Valid → b.Valid → hdrStream a = hdrStream b →
      a.launch = b.launch ∧ a.magic = b.magic ∧ a.version = b.version ∧ a.id = b.id) ∧
    (∀ (ma mb : List (Nat × Nat)) (a b : RawDesc), a.Valid → b.Valid →
      descStream ma a = descStream mb b →
      a.dtype = b.dtype ∧ a.used = b.used ∧ relID ma a = relID mb b ∧ a.link = b.link ∧
      a.size = b.size ∧ a.ctime = b.ctime ∧ a.uid = b.uid ∧ a.gidOwner = b.gidOwner ∧
      a.name = b.name ∧ a.extra = b.extra) :=
  ⟨hdrStream_inj, descStream_inj⟩

/-- **Soundness.**  If verification succeeds under the supplied keys, then for every group task and
    every signature checked for it there is a *supplied* key `k` and metadata `m` that the holder
    of `k` signed such that the image's header stream hashes to `m`'s header digest and every
    object reported verified hashes (descriptor stream and content) to the entry of `m` at its
    position relative to the group's lowest ID. -/
theorem C04_sound (Signed : Nat → ImageMD → Prop) (s : Img) (km : KeyMaterial) (tasks : List Task)
    (rs : List SigResult) (hon : Honest facts km Signed)
    (h : verify H ph fpOf facts s km tasks = .ok rs)
    (g : Nat) (ods : List RawDesc) (sub : Bool) (ht : Task.group g ods sub ∈ tasks) :
    ∃ sigs, getGroupSignatures facts s g false = .ok sigs ∧ sigs ≠ [] ∧
    ∀ sig ∈ sigs, ∃ k ∈ trusted km, ∃ m minID r, Signed k m ∧ r ∈ rs ∧
      getGroupMinObjectID s g = .ok minID ∧ r.verified = ods.map (·.id) ∧
      (∃ a, m.hdrDigest.alg = some a ∧ m.hdrDigest.value = H a (hdrStream s.h)) ∧
      ∀ d ∈ ods, ∃ om ∈ m.objects, om.absID minID = d.id ∧
        m.objects.find? (fun o => o.absID minID == d.id) = some om ∧
        (∃ a, om.descDigest.alg = some a ∧ om.descDigest.value = H a (descStream s.minIDs d)) ∧
        (∃ a, om.objDigest.alg = some a ∧ om.objDigest.value = H a (objContent s.st d)) := by
  obtain ⟨_, hvt⟩ := verify_ok H ph fpOf facts s km tasks rs h
  obtain ⟨sigs, hs, hall⟩ := verifyTasks_ok H ph fpOf facts s km tasks rs hvt _ ht
  simp only [Task.signatures] at hs
  obtain ⟨hne, _⟩ := getGroupSignatures_ok facts s g false sigs hs
  refine ⟨sigs, hs, hne, ?_⟩
  intro sig hsig
  obtain ⟨de, r, _, hv, hr⟩ := hall sig hsig
  simp only [Task.verifySig] at hv
  obtain ⟨ok⟩ := verifyGroupSig_ok H fpOf facts s km g ods sub sig de r hv
  -- the validating supplied key
  have hk : ∃ k ∈ trusted km, Validates (facts (objContent s.st sig)) k := by
    rcases verifyMessage_some _ km de ok.payload r.keys r.entity ok.hmsg with
      ⟨_, _, hne', d, vs, hd, hvs, _, _, hkeys⟩ | ⟨_, _, c, k, kr, hc, hkr, hsg, hmem, _, _⟩
    · cases hk' : r.keys with
      | nil => exact absurd hk' hne'
      | cons k rest =>
        have hkm : k ∈ vs.filter (fun k => d.validKeys.contains k) := by rw [← hkeys, hk']; simp
        simp only [List.mem_filter, List.contains_iff_mem] at hkm
        exact ⟨k, by simp [trusted, hvs, hkm.1], Or.inl ⟨d, hd, by simpa using hkm.2⟩⟩
    · exact ⟨k, by simp [trusted, hkr, hmem], Or.inr ⟨c, hc, hsg⟩⟩
  obtain ⟨k, hkt, hval⟩ := hk
  obtain ⟨raw', m', hmd', hp', hsigned⟩ := hon _ k hkt hval
  have e1 : raw' = ok.raw := by have := ok.hmd; rw [hmd'] at this; exact Option.some.inj this
  have e2 : m' = ok.im := by have := ok.hparse; rw [← e1, hp'] at this; exact Except.ok.inj this
  obtain ⟨hh, _, hobjs⟩ := imMatches_ok H s ok.im ok.minID ods ods ok.hmatch
  exact ⟨k, hkt, ok.im, ok.minID, r, by rw [← e2]; exact hsigned, hr, ok.hmin, ok.hver, hh, hobjs⟩

/-- **No change survives.**  Two images (any two: the signed one and any other presenting itself)
    that match the same signed metadata agree on every protected header field and, for objects at
    the same position relative to their group, on every protected descriptor field and on the
    content, byte for byte. -/
theorem C04_no_change_survives (hinj : HInj H) (s1 s2 : Img) (im : ImageMD) (m1 m2 : Nat)
    (ods1 ods2 : List RawDesc) (R1 : s1.h.Valid) (R2 : s2.h.Valid)
    (h1 : imMatches H s1 im m1 ods1 = .ok ods1) (h2 : imMatches H s2 im m2 ods2 = .ok ods2) :
    (s1.h.launch = s2.h.launch ∧ s1.h.magic = s2.h.magic ∧ s1.h.version = s2.h.version ∧
      s1.h.id = s2.h.id) ∧
    ∀ d1 ∈ ods1, ∀ d2 ∈ ods2, d1.Valid → d2.Valid →
      (∀ o : ObjMD, (o.absID m1 == d1.id) = (o.absID m2 == d2.id)) →
      d1.dtype = d2.dtype ∧ d1.used = d2.used ∧ relID s1.minIDs d1 = relID s2.minIDs d2 ∧
      d1.link = d2.link ∧ d1.size = d2.size ∧ d1.ctime = d2.ctime ∧ d1.name = d2.name ∧
      d1.extra = d2.extra ∧ objContent s1.st d1 = objContent s2.st d2 := by
  obtain ⟨⟨a1, ha1, hv1⟩, _, ho1⟩ := imMatches_ok H s1 im m1 ods1 ods1 h1
  obtain ⟨⟨a2, ha2, hv2⟩, _, ho2⟩ := imMatches_ok H s2 im m2 ods2 ods2 h2
  constructor
  · have : a1 = a2 := by rw [ha1] at ha2; exact Option.some.inj ha2
    subst this
    exact hdrStream_inj _ _ R1 R2 (hinj a1 _ _ (hv1.symm.trans hv2))
  · intro d1 hd1 d2 hd2 v1 v2 hsame
    obtain ⟨om1, _, _, hf1, ⟨b1, hb1, hd1v⟩, ⟨c1, hc1, ho1v⟩⟩ := ho1 d1 hd1
    obtain ⟨om2, _, _, hf2, ⟨b2, hb2, hd2v⟩, ⟨c2, hc2, ho2v⟩⟩ := ho2 d2 hd2
    have hom : om1 = om2 := by
      have : (fun o : ObjMD => o.absID m1 == d1.id) = (fun o : ObjMD => o.absID m2 == d2.id) :=
        funext hsame
      rw [this] at hf1; rw [hf1] at hf2; exact Option.some.inj hf2
    subst hom
    have hb : b1 = b2 := by rw [hb1] at hb2; exact Option.some.inj hb2
    have hc : c1 = c2 := by rw [hc1] at hc2; exact Option.some.inj hc2
    subst hb hc
    have hs : descStream s1.minIDs d1 = descStream s2.minIDs d2 :=
      hinj b1 _ _ (hd1v.symm.trans hd2v)
    have hcont : objContent s1.st d1 = objContent s2.st d2 := hinj c1 _ _ (ho1v.symm.trans ho2v)
    obtain ⟨e1, e2, e3, e4, e5, e6, _, _, e9, e10⟩ :=
      descStream_inj s1.minIDs s2.minIDs d1 d2 v1 v2 hs
    exact ⟨e1, e2, e3, e4, e5, e6, e9, e10, hcont⟩

/-- what verification accepts without noticing is unprotected by construction: the descriptor
    stream does not mention offset, padded size, absolute ID, group number or modification time,
    and the header stream does not mention architecture, times, counters or offsets -/
theorem C04_unprotected_fields (m : List (Nat × Nat)) (d : RawDesc) (off sp mt : Int) (h : Hdr)
    (arch : Bytes) (ct mt' fr : Int) :
    descStream m { d with off := off, sizePad := sp, mtime := mt } = descStream m d ∧
    hdrStream { h with arch := arch, ctime := ct, mtime := mt', dfree := fr } = hdrStream h := by
  simp [descStream, relID, hdrStream]

/-- the hypotheses are jointly satisfiable (identity "hash", list-membership "signatures") -/
example : HInj (fun _ b => b) := fun _ _ _ h => h
example : Honest (fun _ => {}) {} (fun _ _ => True) := by
  intro blob k hk; simp [trusted] at hk

end Sif.C04
