import SifVerif.Proofs.Load
import SifVerif.Proofs.LoadRanges
/-!
# C10 — hostile or corrupt input is rejected safely

The Lean model is total, so "never panics" is not a theorem about the model; what the model can
carry is the *resource* side and the *safety preconditions* the Go code relies on:

* `C10_load_bounded` — the loader keeps a descriptor in memory only after reading its 585 bytes
  from the input: the number of descriptor reads that succeed (`readCount`, whether the load is
  then accepted or refused) times 585 never exceeds the input's length, for every byte string and
  every header.  Memory is proportional to the bytes present, not to the header's count field.
* `C10_loaded_safe` — whatever loads has a non-negative count and table offset, exactly `count`
  descriptors, and every in-use descriptor has a non-negative offset and size: the conditions
  under which `io.SectionReader` cannot overflow (the two panics found by the campaign, fixed in
  02f5391 and 65450b5, were exactly violations of these).
* `C10_reads_bounded` — an object read returns at most `min(size, bytes present)` bytes.

"Never panics, never loops, allocation in proportion" for the Go code itself is decided by the
child-process campaign (no `recover`, wall-clock and allocation measured per input) and the
loader correspondence ties the model's accept/refuse decision and view to the real one on the
same inputs.
-/
namespace Sif

/-- a successful section read returned bytes that are present in the input -/
theorem sectionRead_some (buf : Bytes) (off n : Int) (cur want : Nat) (b : Bytes)
    (h : sectionRead buf off n cur want = some b) :
    0 ≤ off ∧ b.length = want ∧ (0 < want → (off + cur).toNat + want ≤ buf.length) := by
  unfold sectionRead at h
  split at h
  · cases h
  · dsimp only at h
    split at h
    · cases h
    · split at h
      · cases h
      · rename_i h0 _ hl
        cases h
        simp only [readAt, List.length_take, List.length_drop] at hl ⊢
        refine ⟨by omega, by omega, fun _ => by omega⟩

/-- the number of descriptors the loader reads into memory before it stops (accepting or not) -/
def readCount (buf : Bytes) (doff dsize : Int) : Nat → Nat → Nat
  | 0, _ => 0
  | n + 1, i =>
    match sectionRead buf doff dsize (585 * i) 585 with
    | none => 0
    | some b =>
      let rd := decDesc b
      if rd.used && (rd.off < 0 || rd.size < 0) then 1 else 1 + readCount buf doff dsize n (i + 1)

theorem readCount_bounded (buf : Bytes) (doff dsize : Int) (n i : Nat) :
    readCount buf doff dsize n i = 0 ∨
      doff.toNat + 585 * (i + readCount buf doff dsize n i) ≤ buf.length := by
  induction n generalizing i with
  | zero => left; rfl
  | succ n ih =>
    unfold readCount
    cases hs : sectionRead buf doff dsize (585 * i) 585 with
    | none => left; rfl
    | some b =>
      obtain ⟨h0, _, hin⟩ := sectionRead_some buf doff dsize (585 * i) 585 b hs
      have hin := hin (by omega)
      have e : (doff + ((585 * i : Nat) : Int)).toNat = doff.toNat + 585 * i := by omega
      rw [e] at hin
      right
      dsimp only
      by_cases hc : ((decDesc b).used && (decide ((decDesc b).off < 0) || decide ((decDesc b).size < 0))) = true
      · rw [if_pos hc, Nat.mul_add, Nat.mul_one, ← Nat.add_assoc]; exact hin
      · rw [if_neg hc]
        clear hc hs
        rcases ih (i + 1) with h | h
        · rw [h, Nat.add_zero, Nat.mul_add, Nat.mul_one, ← Nat.add_assoc]; exact hin
        · have e2 : i + (1 + readCount buf doff dsize n (i + 1)) = i + 1 + readCount buf doff dsize n (i + 1) := by
            rw [Nat.add_assoc]
          rw [e2]; exact h

/-- **C10, allocation**: for every byte string and every header in it, the descriptors the loader
    holds in memory were all read from bytes that are there: `585 · reads ≤ length`. -/
theorem C10_load_bounded (buf : Bytes) (doff dsize : Int) (n : Nat) :
    585 * readCount buf doff dsize n 0 ≤ buf.length := by
  rcases readCount_bounded buf doff dsize n 0 with h | h
  · rw [h]; omega
  · omega

/-- what `readDescriptors` returns: the accumulator plus exactly `n` loadable descriptors, as many
    as `readCount` counted -/
theorem readDescriptors_inv (buf : Bytes) (doff dsize : Int) (n i : Nat) (acc rds : List RawDesc)
    (h : readDescriptors buf doff dsize n i acc = .ok rds) :
    ∃ more, rds = acc ++ more ∧ more.length = n ∧ readCount buf doff dsize n i = n ∧
      ∀ d ∈ more, loadable d = true := by
  induction n generalizing i acc with
  | zero =>
    simp only [readDescriptors, Except.ok.injEq] at h
    exact ⟨[], by simp [h], rfl, rfl, by simp⟩
  | succ n ih =>
    unfold readDescriptors at h
    unfold readCount
    cases hs : sectionRead buf doff dsize (585 * i) 585 with
    | none => simp [hs] at h
    | some b =>
      simp only [hs] at h ⊢
      split at h
      · cases h
      · rename_i hl
        obtain ⟨more, h1, h2, h3, h4⟩ := ih (i + 1) _ h
        refine ⟨decDesc b :: more, by simp [h1], by simp [h2], ?_, ?_⟩
        · simp only [hl, Bool.false_eq_true, ↓reduceIte, h3]; omega
        · intro d hd
          simp only [List.mem_cons] at hd
          rcases hd with rfl | hd
          · unfold loadable
            cases hx : ((decDesc b).used && (decide ((decDesc b).off < 0) || decide ((decDesc b).size < 0)))
            · rfl
            · exact absurd hx hl
          · exact h4 d hd

/-- **C10, what loads is safe to use**: non-negative count and table offset, exactly `count`
    descriptors — each read from the input — and no in-use descriptor with a negative offset or
    size. -/
theorem C10_loaded_safe (st : Store) (s : Img) (h : loadContainer st = .ok s) :
    0 ≤ s.h.dtotal ∧ 0 ≤ s.h.doff ∧ s.rds.length = s.h.dtotal.toNat ∧
    585 * s.rds.length ≤ st.buf.length ∧
    ∀ d ∈ s.rds, d.used = true → 0 ≤ d.off ∧ 0 ≤ d.size := by
  unfold loadContainer at h
  split at h
  · cases h
  · dsimp only at h
    split at h
    · cases h
    · split at h
      · cases h
      · split at h
        · cases h
        · split at h
          · cases h
          · split at h
            · cases h
            · rename_i hb _ _ _ ht hd _ rds hr
              cases h
              obtain ⟨more, h1, h2, h3, h4⟩ := readDescriptors_inv _ _ _ _ _ _ _ hr
              simp only [List.nil_append] at h1
              subst h1
              have hb' := C10_load_bounded st.buf (decHdr hb).doff (decHdr hb).dsize (decHdr hb).dtotal.toNat
              rw [h3] at hb'
              dsimp only
              refine ⟨by omega, by omega, h2, by rw [h2]; exact hb', ?_⟩
              intro d hdm hu
              have := h4 d hdm
              unfold loadable at this
              simp only [hu, Bool.true_and, Bool.not_eq_eq_eq_not, Bool.not_true, Bool.or_eq_false_iff,
                decide_eq_false_iff_not] at this
              omega

/-- whatever the loader accepts — any bytes at all — yields a handle all of whose numbers are
    representable in their Go types and whose byte-array fields have their fixed lengths: nothing
    downstream (arithmetic on offsets and sizes, the encoders that write the table back) meets a
    value the type cannot hold -/
theorem C10_loaded_ranges (st : Store) (s : Img) (h : loadContainer st = .ok s) : Ranges s :=
  loadContainer_ranges st s h

/-- **C10, object reads**: reading an object yields at most its declared size and at most the
    bytes the input holds -/
theorem C10_reads_bounded (st : Store) (d : RawDesc) :
    (objContent st d).length ≤ d.size.toNat ∧ (objContent st d).length ≤ st.buf.length := by
  unfold objContent
  split
  · simp
  · simp only [readAt, List.length_take, List.length_drop]
    omega

/-! ### the arithmetic of `io.SectionReader`, in wrapping int64

`NewSectionReader(r, off, n)` sets `limit = n + off` when `off <= MaxInt64 - n` (all in wrapping
int64) and `MaxInt64` otherwise; `Read` slices its buffer to `p[0 : limit - off]` when the
position is below the limit.  A negative bound there is the panic the campaign found twice
(D4c: an in-use descriptor with offset −1, size −1; D12: table offset MinInt64+1, size MinInt64). -/

/-- `limit` as Go computes it -/
def goLimit (off n : Int) : Int := if off ≤ wrap64 (maxI64 - n) then wrap64 (n + off) else maxI64

/-- the first `Read` of a fresh section panics: position below the limit and a negative bound -/
def goReadPanics (off n : Int) : Bool := decide (off < goLimit off n) && decide (wrap64 (goLimit off n - off) < 0)

/-- **no panic for what the loader lets through**: a non-negative offset (any size, negative
    included) never gives a negative slice bound — the conditions of `C10_loaded_safe` and of the
    table-offset check are exactly what `io.SectionReader` needs -/
theorem C10_section_no_panic (off n : Int) (h0 : 0 ≤ off) (h1 : off ≤ maxI64)
    (hn : -9223372036854775808 ≤ n ∧ n ≤ maxI64) : goReadPanics off n = false := by
  unfold goReadPanics goLimit wrap64 maxI64 at *
  simp only [Bool.and_eq_false_iff, decide_eq_false_iff_not]
  by_cases hc : off ≤ (9223372036854775807 - n + 9223372036854775808) % 18446744073709551616 - 9223372036854775808
  · simp only [hc, ↓reduceIte]
    right
    omega
  · simp only [hc, ↓reduceIte]
    right
    omega

/-- for those inputs the model's `sectionLimit` is Go's limit -/
theorem goLimit_eq_sectionLimit (off n : Int) (h0 : 0 ≤ off) (h1 : off ≤ maxI64)
    (hn : -9223372036854775808 ≤ n ∧ n ≤ maxI64) : goLimit off n = sectionLimit off n := by
  unfold goLimit sectionLimit wrap64 maxI64 at *
  by_cases hc : off ≤ (9223372036854775807 - n + 9223372036854775808) % 18446744073709551616 - 9223372036854775808
  · simp only [hc, ↓reduceIte]; omega
  · simp only [hc, ↓reduceIte]

/-- D4c and D12 as the code stood: both inputs make the first read panic -/
theorem D4c_witness : goReadPanics (-1) (-1) = true := by decide
theorem D12_witness : goReadPanics (-9223372036854775807) (-9223372036854775808) = true := by decide
/-- a negative offset alone does not always panic (the reason single-field grids missed D12) -/
example : goReadPanics (-1) 585 = false ∧ goReadPanics (-9223372036854775807) 585 = false := by decide

/-- non-vacuity: a 128-byte header claiming 2^40 descriptors is refused after reading none -/
example : readCount (zeros 128) 128 (585 * 1099511627776) 1099511627776 0 = 0 := by
  unfold readCount
  rfl

end Sif
