/-
  Props/C06.lean — Whatever was signed verifies: sign/verify completeness.

  * `C06_sign_shape`, `C06_metadata`: what `Sign` appends and what it signs — the metadata of the
    signer's objects, which is `entryOf` of each object plus the header digest.
  * `C06_complete`: verification succeeds, and every result reports exactly the task's objects,
    whenever every signature the tasks look at is *good*: a supplied key validates it, its
    fingerprint is the validating entity's, and its message decodes to the metadata of the covered
    objects **of the image being verified** (cryptography and JSON enter only through these
    hypotheses on the per-blob facts).
  * `C06_same_view`: that metadata depends on the image only through the protected view — header
    stream and, per object, relative ID, descriptor stream and content; so a signature made on one
    image is good on every image presenting the same view (reloaded, relocated, IDs shifted as a
    group, unprotected header fields changed).
  * `C06_del_elsewhere`: deleting objects of *other* groups (with or without zeroing and
    compaction) leaves that view alone as well — in particular the group's minimum object ID,
    hence every member's relative ID, is recomputed to the same value.
  * `C06_add_elsewhere`: adding an object outside a group (in particular the signature objects
    `Sign` itself appends, and co-signatures) leaves the header stream, the group's members and
    each member's descriptor stream and content as they were — the view the signature covers.
-/
import SifVerif.Proofs.Complete
import SifVerif.Proofs.Readback
import SifVerif.Proofs.Elsewhere
namespace Sif.C06

variable (H : HashAlg → Bytes → Bytes) (ph : Bytes → Option Bytes) (fpOf : Nat → Bytes)
  (facts : Bytes → SigFacts) (sha : Bytes → Bytes)

/-- **Sign only appends an ungrouped signature object linked to the signed group**: the descriptor
    input `groupSigner.sign` hands to `AddObject` is of type Signature, in no group, linked (with
    the group flag) to the signer's group, and carries hash type and fingerprint as metadata. -/
theorem C06_sign_shape (gs : GroupSigner) (ht : Int) (fp blob : Bytes) (hg : gs.g ≠ 0) :
    ∃ di, sigDescriptorInput gs ht fp blob = .ok di ∧ di.dt = dtSignature ∧ di.groupID = 0 ∧
      di.linkID = (gs.g % u32Mod) % 268435456 + descrGroupMask ∧
      di.md = .raw (encSignature ht fp) ∧ di.content = blob ∧ di.failAt = none := by
  have hb : (gs.g == 0) = false := by simpa using hg
  refine ⟨{ dt := dtSignature, groupID := 0, linkID := (gs.g % u32Mod) % 268435456 + descrGroupMask,
            alignment := 0, md := .raw (encSignature ht fp), content := blob, failAt := none }, ?_, ?_⟩
  · simp [sigDescriptorInput, newDescriptorInput, List.foldlM, DIOpt.apply, hb, isOCIType, dtSignature,
      dtOCIRootIndex, dtOCIBlob, dtPartition, bind, Except.bind, pure, Except.pure]
  · simp

/-- the metadata that is signed describes exactly the signer's objects: one entry per object, in
    ascending ID order, at its position relative to the group's lowest ID, with the digests of its
    descriptor stream and content, plus the digest of the header stream -/
theorem C06_metadata (s : Img) (gs : GroupSigner) (a : HashAlg) (md : ImageMD)
    (h : gs.metadata H s a = .ok md) :
    ∃ minID, getGroupMinObjectID s gs.g = .ok minID ∧ (∀ d ∈ gs.ods, minID ≤ d.id) ∧
      md.version = 1 ∧ md.hdrDigest = { alg := some a, value := H a (hdrStream s.h) } ∧
      md.objects = gs.ods.map (fun d =>
        { relID := d.id - minID,
          descDigest := { alg := some a, value := H a (descStream s.minIDs d) },
          objDigest := { alg := some a, value := H a (objContent s.st d) } }) := by
  unfold GroupSigner.metadata at h
  cases hm : getGroupMinObjectID s gs.g with
  | error e => simp [hm] at h
  | ok minID =>
    simp only [hm] at h
    unfold getImageMetadata at h
    split at h
    · cases h
    · rename_i hany
      simp only [Except.ok.injEq] at h
      subst h
      refine ⟨minID, rfl, ?_, rfl, rfl, rfl⟩
      intro d hd
      simp only [List.any_eq_true, decide_eq_true_eq, not_exists, not_and, Nat.not_lt] at hany
      exact hany d hd

/-- **completeness**: with good signatures on every task, `Verify` succeeds -/
theorem C06_complete (s : Img) (km : KeyMaterial) (tasks : List Task)
    (ods : List RawDesc) (hung : getDescriptors ph s [.noGroup] = .ok ods)
    (hsig : ∀ d ∈ ods, d.dtype = dtSignature)
    (hg : ∀ t ∈ tasks, TaskGood H fpOf facts s km t) :
    ∃ rs, verify H ph fpOf facts s km tasks = .ok rs :=
  verify_complete H ph fpOf facts s km tasks ods hung hsig hg

/-- … and each signature's result lists exactly the objects of its task -/
theorem C06_reports_covered (s : Img) (km : KeyMaterial) (g minID : Nat) (cov ods : List RawDesc)
    (sub : Bool) (hmin : getGroupMinObjectID s g = .ok minID)
    (hge : ∀ d ∈ cov, minID ≤ d.id) (hlt : ∀ d ∈ cov, d.id < u32Mod) (hnd : (cov.map (·.id)).Nodup)
    (h1 : ∀ d ∈ ods, d ∈ cov) (h2 : sub = false → ∀ d ∈ cov, d ∈ ods)
    (sigs : List RawDesc) (G : ∀ sig ∈ sigs, GoodSig H fpOf facts s km minID cov sig) :
    ∃ rs, verifySigs H fpOf facts s km (.group g ods sub) sigs = .ok rs ∧
      rs.length = sigs.length ∧ ∀ r ∈ rs, r.verified = ods.map (·.id) :=
  verifySigs_complete H fpOf facts s km g minID cov ods sub hmin hge hlt hnd h1 h2 sigs G

/-- what `Sign` signs is exactly what a good signature must decode to -/
theorem C06_signed_is_current (s : Img) (gs : GroupSigner) (a : HashAlg) (md : ImageMD)
    (h : gs.metadata H s a = .ok md) :
    ∃ minID, getGroupMinObjectID s gs.g = .ok minID ∧
      md = { version := 1, hdrDigest := { alg := some a, value := H a (hdrStream s.h) },
             objects := gs.ods.map (entryOf H s minID a) } := by
  obtain ⟨minID, hmin, _, hv, hh, ho⟩ := C06_metadata H s gs a md h
  refine ⟨minID, hmin, ?_⟩
  cases md
  simp only at hv hh ho
  simp [hv, hh, ho, entryOf]

/-- **same protected view ⇒ same signed metadata** -/
theorem C06_same_view (s0 s : Img) (m0 m : Nat) (a : HashAlg) (cov0 cov : List RawDesc)
    (hh : hdrStream s0.h = hdrStream s.h) (hlen : cov0.length = cov.length)
    (hpt : ∀ i (h0 : i < cov0.length) (h : i < cov.length),
      cov0[i].id - m0 = cov[i].id - m ∧ descStream s0.minIDs cov0[i] = descStream s.minIDs cov[i] ∧
      objContent s0.st cov0[i] = objContent s.st cov[i]) :
    ({ version := 1, hdrDigest := { alg := some a, value := H a (hdrStream s0.h) },
       objects := cov0.map (entryOf H s0 m0 a) } : ImageMD) =
    { version := 1, hdrDigest := { alg := some a, value := H a (hdrStream s.h) },
      objects := cov.map (entryOf H s m a) } := by
  rw [hh, entries_same_view H s0 s m0 m a cov0 cov hlen hpt]

/-- **adding an object outside a group leaves the group's signed view alone**: header stream,
    membership of every other in-use object, its descriptor stream and its content -/
theorem C06_add_elsewhere (s : Img) (W : WF s) (P : Placed s) (R : Ranges s) (di : DI) (t : TOpt) (now : Int)
    (hok : (step sha ph s (.add di t) now).2 = .ok)
    (x : RawDesc) (i : Nat) (hx : s.rds[i]? = some x) (hu : x.used = true)
    (hg : x.gid ≠ (di.groupID % u32Mod ||| descrGroupMask)) :
    (step sha ph s (.add di t) now).1.rds[i]? = some x ∧
    hdrStream (step sha ph s (.add di t) now).1.h = hdrStream s.h ∧
    descStream (step sha ph s (.add di t) now).1.minIDs x = descStream s.minIDs x ∧
    objContent (step sha ph s (.add di t) now).1.st x = objContent s.st x := by
  have hio : (step sha ph s (.add di t) now).2 ≠ .err .io := by rw [hok]; simp
  have hcont := (step_frame sha ph s W P R (.add di t) now i x hx hu (fun _ => trivial) hio).1
  obtain ⟨st', _, hs', hres⟩ := step_store sha ph s (.add di t) now (by simp) hio
  rw [hs'] at hcont ⊢
  simp only [plan] at hres hcont ⊢
  rcases addObjectPlan_cases sha ph s di t now with ⟨calls, e, h⟩ | ⟨calls, d, arch, hi, hp, hw, h⟩
  · rw [h] at hres; rw [hok] at hres; cases hres
  · simp only at h
    rw [h]
    obtain ⟨off, _, _, _, _, _, _, _, _, hgid, _⟩ := writeDataObjectAt_ok sha _ di _ _ d calls hw
    have hslot := (findFreeSlot_spec s.rds hi).1
    have hne : findFreeSlot s.rds ≠ i := by
      intro e
      have : s.rds.getD (findFreeSlot s.rds) zeroDesc = x := by
        rw [e]; simp [List.getD, hx]
      rw [this, hu] at hslot; cases hslot
    refine ⟨?_, ?_, ?_, hcont⟩
    · simp only [commitObject]
      rw [List.getElem?_set_ne hne]; exact hx
    · simp [hdrStream, commitObject]
    · simp only [commitObject, descStream, relID]
      rw [minLookup_minLower]
      have : ¬ d.gid = x.gid := by rw [hgid]; exact fun e => hg e.symm
      simp [this]

/-- **deleting objects outside a group leaves the group's signed view alone**: a member `x` whose
    group loses no object keeps its slot and descriptor, the header stream, its descriptor stream
    (the group's minimum ID is recomputed to the same value) and its content — whatever the
    selector, with or without zeroing and compaction -/
theorem C06_del_elsewhere (s : Img) (W : WF s) (P : Placed s) (R : Ranges s) (sel : Sel) (zero compact : Bool)
    (t : TOpt) (now : Int) (hok : (step sha ph s (.del sel zero compact t) now).2 = .ok)
    (x : RawDesc) (i : Nat) (hx : s.rds[i]? = some x) (hu : x.used = true)
    (hg : ∀ d ∈ s.rds, hit ph sel d = true → d.gid ≠ x.gid) :
    (step sha ph s (.del sel zero compact t) now).1.rds[i]? = some x ∧
    hdrStream (step sha ph s (.del sel zero compact t) now).1.h = hdrStream s.h ∧
    descStream (step sha ph s (.del sel zero compact t) now).1.minIDs x = descStream s.minIDs x ∧
    objContent (step sha ph s (.del sel zero compact t) now).1.st x = objContent s.st x := by
  have hio : (step sha ph s (.del sel zero compact t) now).2 ≠ .err .io := by rw [hok]; simp
  have hmem : x ∈ s.rds := List.mem_of_getElem? hx
  have hnot : hit ph sel x = false := by
    cases hh : hit ph sel x with
    | false => rfl
    | true => exact absurd rfl (hg x hmem hh)
  have hcont := (step_frame sha ph s W P R (.del sel zero compact t) now i x hx hu
    (fun _ => by simpa [survives] using hnot) hio).1
  obtain ⟨st', _, hs', hres⟩ := step_store sha ph s (.del sel zero compact t) now (by simp) hio
  rw [hs'] at hcont ⊢
  simp only [plan] at hres hcont ⊢
  rcases deleteObjectsPlan_cases ph s sel zero compact t now with ⟨calls, e, h⟩ | ⟨_, _, h⟩
  · rw [h] at hres; rw [hok] at hres; cases hres
  · rw [h]
    have hd := hdrAfterDelete_doff s.h (s.rds.filter (hit ph sel))
    refine ⟨?_, ?_, ?_, hcont⟩
    · have : (deleteResult ph s sel compact (resolveTime s t now)).rds =
          s.rds.map (fun d => if hit ph sel d then zeroDesc else d) := by
        cases compact <;> simp [deleteResult, deleteFinish]
      simp only [this, List.getElem?_map, hx, Option.map_some, hnot, Bool.false_eq_true, ↓reduceIte]
    · cases compact <;>
        simp [hdrStream, deleteResult, deleteFinish, hd.2.2.2.2.2.1, hd.2.2.2.2.2.2.1, hd.2.2.2.2.2.2.2.1,
          hd.2.2.2.2.2.2.2.2.1]
    · have hm : (deleteResult ph s sel compact (resolveTime s t now)).minIDs =
          populateMinIDs (s.rds.map (fun d => if hit ph sel d then zeroDesc else d)) := by
        cases compact <;> simp [deleteResult, deleteFinish]
      simp only [hm, descStream, relID]
      rw [minLookup_after_kill s.minIDs s.rds (hit ph sel) x.gid W.coh ⟨x, hmem, hu, rfl⟩ hg]

end Sif.C06
