/-
  Props/C06.lean — Whatever was signed verifies: sign/verify completeness.
-/
import SifVerif.Proofs.Tasks
import SifVerif.Proofs.Readback
namespace Sif.C06

variable (H : HashAlg → Bytes → Bytes) (ph : Bytes → Option Bytes) (fpOf : Nat → Bytes)
  (facts : Bytes → SigFacts) (sha : Bytes → Bytes)

/-- **Sign only appends an ungrouped signature object linked to the signed group**: the descriptor
    input `groupSigner.sign` hands to `AddObject` is of type Signature, in no group, linked (with
    the group flag) to the signer's group, and carries hash type and fingerprint as metadata. -/
theorem C06_sign_shape (gs : GroupSigner) (ht : Int) (fp blob : Bytes) (hg : gs.g ≠ 0) :
    ∃ di, sigDescriptorInput gs ht fp blob = .ok di ∧ di.dt = dtSignature ∧ di.groupID = 0 ∧
      di.linkID = (gs.g % u32Mod) % 268435456 + descrGroupMask ∧
      di.md = .raw (encSignature ht fp) ∧ di.content = blob ∧ di.failAt = none := by
  have hb : (gs.g == 0) = false := by simpa using hg
  refine ⟨{ dt := dtSignature, groupID := 0, linkID := (gs.g % u32Mod) % 268435456 + descrGroupMask,
            alignment := 0, md := .raw (encSignature ht fp), content := blob, failAt := none }, ?_, ?_⟩
  · simp [sigDescriptorInput, newDescriptorInput, List.foldlM, DIOpt.apply, hb, isOCIType, dtSignature,
      dtOCIRootIndex, dtOCIBlob, dtPartition, bind, Except.bind, pure, Except.pure]
  · simp

/-- the metadata that is signed describes exactly the signer's objects: one entry per object, in
    ascending ID order, at its position relative to the group's lowest ID, with the digests of its
    descriptor stream and content, plus the digest of the header stream -/
theorem C06_metadata (s : Img) (gs : GroupSigner) (a : HashAlg) (md : ImageMD)
    (h : gs.metadata H s a = .ok md) :
    ∃ minID, getGroupMinObjectID s gs.g = .ok minID ∧ (∀ d ∈ gs.ods, minID ≤ d.id) ∧
      md.version = 1 ∧ md.hdrDigest = { alg := some a, value := H a (hdrStream s.h) } ∧
      md.objects = gs.ods.map (fun d =>
        { relID := d.id - minID,
          descDigest := { alg := some a, value := H a (descStream s.minIDs d) },
          objDigest := { alg := some a, value := H a (objContent s.st d) } }) := by
  unfold GroupSigner.metadata at h
  cases hm : getGroupMinObjectID s gs.g with
  | error e => simp [hm] at h
  | ok minID =>
    simp only [hm] at h
    unfold getImageMetadata at h
    split at h
    · cases h
    · rename_i hany
      simp only [Except.ok.injEq] at h
      subst h
      refine ⟨minID, rfl, ?_, rfl, rfl, rfl⟩
      intro d hd
      simp only [List.any_eq_true, decide_eq_true_eq, not_exists, not_and, Nat.not_lt] at hany
      exact hany d hd

end Sif.C06
