import SifVerif.Model.Bytes
import SifVerif.Model.Layout
import SifVerif.Model.Store
import SifVerif.Model.Image
import SifVerif.Model.Extra
import SifVerif.Proofs.Select
import SifVerif.Props.C13
